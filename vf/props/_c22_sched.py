"""Small thread-schedule explorer for C22 (self-contained; does not depend on vf.engines.tx).

Real OS threads under cooperative baton passing: a worker runs only while it holds the baton and hands
it back to the scheduler (the thread that called Execution.run) at every *scheduling point*:

  * `line` events delivered by sys.settrace inside a FIXED list of Pony code objects (PointSet), with an
    optional per-code-object filter of line numbers;
  * every driver call of a VfConnection (dbapi.ENV.handler);
  * acquire of the SQLite provider's transaction locks (SchedLock: a thread that finds the lock held is
    *disabled* until release; "no enabled thread and not all done" is a deadlock).

Exploration is stateless: an execution is identified by its choice list; Explorer runs a prefix, then
continues with the default choice (index 0 = keep running the current thread) and pushes every
alternative of every later point that fits into the preemption budget. The work list is ordered by
number of preemptions (iterative preemption bounding 0, 1, 2, ...) and no schedule is executed twice.
Every child execution checks that the prefix it replays produced exactly the labels and enabled sets its
parent saw: a divergence is a HarnessError, never a violation.

Granularity limit: a thread switch can be forced only *between* source lines of the listed functions
(and at driver calls); races inside one source line are not explored.
"""
import sys, threading, heapq, hashlib
from vf import core
from vf.seams import dbapi

HANG_SECONDS = 60

class PointSet(object):
    """code object -> (short name, frozenset of line numbers or None for 'every line')."""
    def __init__(self):
        self.codes = {}
    def add(self, name, func, line_filter=None):
        """func: python function; line_filter(text) -> bool selects the source lines that are
        scheduling points (None: every line). Fails loudly if nothing is selected."""
        import inspect
        func = inspect.unwrap(func)
        code = getattr(func, '__code__', None)
        if code is None: raise core.HarnessError('C22: %s has no code object' % name)
        lines = None
        if line_filter is not None:
            src, first = inspect.getsourcelines(code)
            lines = frozenset(first + i for i, text in enumerate(src) if line_filter(text))
            if not lines: raise core.HarnessError('C22: no cache line found in %s' % name)
        self.codes[code] = (name, lines, code.co_firstlineno)
        return self

class SchedLock(object):
    """Drop-in for threading.Lock on provider.transaction_lock / pre_transaction_lock."""
    def __init__(self, name):
        self.name, self.owner, self.ex = name, None, None
        self._real = threading.Lock()       # used when no execution is active (set-up, matrix)
    def acquire(self, blocking=True, timeout=-1):
        ex = self.ex
        me = ex.me() if ex is not None else None
        if me is None: return self._real.acquire(blocking, timeout)
        ex.point(me, 'lock:' + self.name)
        while self.owner is not None:
            ex.waiting[me] = self
            ex.point(me, 'blocked:' + self.name)
        ex.waiting[me] = None
        self.owner = me
        return True
    def release(self):
        ex = self.ex
        me = ex.me() if ex is not None else None
        if me is None: return self._real.release()
        if self.owner is None: raise RuntimeError('release unlocked lock')
        self.owner = None
    def locked(self):
        return self.owner is not None or self._real.locked()
    __enter__ = acquire
    def __exit__(self, *a): self.release()

class Execution(object):
    """One complete run of `bodies` (callables taking the thread index) under a choice list."""
    def __init__(self, bodies, choices, pointset, locks=(), finalizer=None):
        self.bodies, self.choices, self.ps = bodies, list(choices), pointset
        self.n = len(bodies)
        self.sems = [threading.Semaphore(0) for _ in bodies]
        self.main = threading.Semaphore(0)
        self.done = [False] * self.n
        self.waiting = [None] * self.n
        self.results = [None] * self.n
        self.errors = [None] * self.n
        self.trace = []            # (thread, label)      one entry per point reached
        self.decisions = []        # (enabled tuple, chosen index, was_preemption)
        self.idents = {}
        self.locks = locks
        self.finalizer = finalizer
        self.switch_in = {}        # function name -> number of switches away from a thread standing in it
        self.cur = None
        self.status = None

    # ---- worker side ------------------------------------------------------------------------
    def me(self):
        return self.idents.get(threading.get_ident())
    def point(self, i, label):
        self.trace.append((i, label))
        self.main.release()
        self.sems[i].acquire()
    def _tracer_for(self, i):
        codes = self.ps.codes
        point = self.point
        def local(frame, event, arg):
            if event == 'line':
                name, lines, first = codes[frame.f_code]
                ln = frame.f_lineno
                if lines is None or ln in lines:
                    point(i, '%s+%d' % (name, ln - first))
            return local
        def glob(frame, event, arg):
            if frame.f_code in codes: return local
            return None
        return glob
    def _worker(self, i):
        self.idents[threading.get_ident()] = i
        self.sems[i].acquire()
        try:
            sys.settrace(self._tracer_for(i))
            try: self.results[i] = self.bodies[i](i)
            finally: sys.settrace(None)
        except BaseException as e:                    # a body must catch what Pony raises itself
            self.errors[i] = '%s: %s' % (type(e).__name__, e)
        try:
            if self.finalizer is not None: self.finalizer(i)
        except BaseException as e:
            self.errors[i] = (self.errors[i] or '') + ' finalizer %s: %s' % (type(e).__name__, e)
        self.done[i] = True
        self.main.release()
    def _on_call(self, kind, sql, args, con):
        i = self.me()
        if i is not None and not self.done[i]:
            self.point(i, 'db:' + kind)

    # ---- scheduler side -----------------------------------------------------------------------
    def _ready(self, t):
        if self.done[t]: return False
        w = self.waiting[t]
        return w is None or w.owner is None
    def run(self):
        for l in self.locks: l.ex, l.owner = self, None
        old_handler = dbapi.ENV.handler
        dbapi.ENV.handler = self._on_call
        threads = [threading.Thread(target=self._worker, args=(i,), daemon=True) for i in range(self.n)]
        for t in threads: t.start()
        pos = 0
        try:
            while True:
                enabled = [t for t in range(self.n) if self._ready(t)]
                if not enabled:
                    self.status = 'ok' if all(self.done) else 'deadlock'
                    break
                cur = self.cur
                can_continue = cur in enabled
                if can_continue:
                    enabled.remove(cur); enabled.insert(0, cur)
                if pos < len(self.choices):
                    c = self.choices[pos]
                    if c >= len(enabled):
                        raise core.HarnessError('C22 schedule replay diverged: choice %d of %r at point %d' % (c, enabled, pos))
                else: c = 0
                pre = bool(can_continue and c != 0)
                self.decisions.append((tuple(enabled), c, pre))
                if cur is not None and enabled[c] != cur and self.trace and self.trace[-1][0] == cur:
                    lab = self.trace[-1][1]
                    if not lab.startswith(('db:', 'lock:', 'blocked:')) and not self.done[cur]:
                        fn = lab.split('+')[0]
                        self.switch_in[fn] = self.switch_in.get(fn, 0) + 1
                pos += 1
                self.cur = enabled[c]
                self.sems[self.cur].release()
                if not self.main.acquire(timeout=HANG_SECONDS):
                    raise core.HarnessError('C22: thread %d did not come back to the scheduler within %ds '
                                            '(blocked outside a scheduling point?) trace tail %r'
                                            % (self.cur, HANG_SECONDS, self.trace[-5:]))
        finally:
            dbapi.ENV.handler = old_handler
            for l in self.locks: l.ex = None
        for t in threads: t.join(HANG_SECONDS)
        if any(t.is_alive() for t in threads): raise core.HarnessError('C22: worker thread did not finish')
        return self
    # ---- derived --------------------------------------------------------------------------------
    def taken(self):
        return [c for (_, c, _) in self.decisions]
    def preemptions(self):
        return sum(1 for d in self.decisions if d[2])
    def fingerprint(self, upto=None):
        """hash of (labels, enabled sets) of the first `upto` decisions"""
        n = len(self.decisions) if upto is None else upto
        h = hashlib.sha1()
        # decision k is taken after trace entry k-1 was appended (decision 0 before any point)
        h.update(repr((self.trace[:max(0, n - 1)], [d[0] for d in self.decisions[:n]])).encode())
        return h.hexdigest()[:16]
    def switches(self):
        """number of decisions that changed the running thread while the previous one was not done"""
        return sum(self.switch_in.values())

class Explorer(object):
    """Stateless search over choice lists with iterative preemption bounding."""
    def __init__(self, make_execution, bound, max_executions=None):
        self.make, self.bound, self.max = make_execution, bound, max_executions
        self.executions = 0
        self.transitions = 0
        self.by_preemptions = {}
        self.capped = False
    def run(self, visit, roots=None):
        """visit(execution) is called for every completed execution. roots: optional list of initial
        choice prefixes (used to partition the tree between processes)."""
        heap, seq = [], 0
        for r in (roots if roots is not None else [[]]):
            heap.append((0, seq, list(r), None, 0)); seq += 1
        heapq.heapify(heap)
        while heap:
            pre0, _, prefix, fp, fplen = heapq.heappop(heap)
            if self.max is not None and self.executions >= self.max:
                self.capped = True
                break
            ex = self.make(prefix).run()
            self.executions += 1
            self.transitions += len(ex.decisions)
            if fp is not None and ex.fingerprint(fplen) != fp:
                raise core.HarnessError('C22: replaying prefix %r diverged from the execution that scheduled it' % (prefix,))
            npre = ex.preemptions()
            self.by_preemptions[npre] = self.by_preemptions.get(npre, 0) + 1
            visit(ex)
            taken = ex.taken()
            used = 0
            for k, (enabled, c, pre) in enumerate(ex.decisions):
                if k >= len(prefix):
                    can_continue = (k > 0 and enabled and self._continues(ex, k))
                    for alt in range(1, len(enabled)):
                        cost = used + (1 if can_continue else 0)
                        if cost <= self.bound:
                            heapq.heappush(heap, (cost, seq, taken[:k] + [alt], ex.fingerprint(k + 1), k + 1)); seq += 1
                if pre: used += 1
        return self
    @staticmethod
    def _continues(ex, k):
        """was the thread running before decision k still enabled (so that alt != 0 is a preemption)?"""
        enabled = ex.decisions[k][0]
        prev = ex.decisions[k - 1]
        return enabled[0] == prev[0][prev[1]]
