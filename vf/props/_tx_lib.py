"""Shared pieces of the TX checks C20 / C35: the account model, the session-program interpreter, the
monitors (commit attribution, per-row composition in commit order, stale-read, spurious failure,
lock window) and the PostgreSQL statement-log model.

A session program is dict(name=..., flags={db_session kwargs}, ops=[op, ...]); ops:

  ('get', o)                 obj = A[o]
  ('getfu', o, mode)         obj = A.get_for_update(id=o [, nowait=True | skip_locked=True])    mode in '', 'nowait', 'skip'
  ('selfu', o, mode)         select(a for a in A if a.id == o).for_update(...)[:]
  ('selq', attr)             select(a for a in A if a.<attr> == <fixture value>)[:]   read via query: every returned
                             object's <attr> counts as read
  ('getby', o, attr)         A.get(id=o, <attr>=<fixture value>)                      idem; the session stops quietly on a miss
  ('r', o, attr)             value = obj.attr                                        (noted as read)
  ('w', o, attr, src)        obj.attr = F_t(value read from obj.src)  /  src None: a constant of thread t (blind write)
  ('del', o) ('new', o) ('flush',) ('commit',)
                             an explicit commit() in the MIDDLE of a program makes the db_session a sequence of
                             transactions (note 'committed' when it returns): locks end there, the identity map and the
                             values the session has read stay. The monitors work per transaction (View.txns) and the
                             stale-read monitor spans the whole db_session.
  ('refetch', o)             select(a for a in A if a.id == o)[:]  - the row is read again and compared with what the
                             session has read (obj.load() would be a no-op: it only loads attributes not loaded yet)

Thread t's functions: int v -> v + 10**t, str v -> v + 'abc'[t], float v -> v + 2**t; constants
1000*(t+1), 'B<t>', 100.0*(t+1): every committed value identifies the sessions that produced it.
"""
import re
from vf import core
from vf.engines import tx

TABLE = 'A'
KIND = dict(x='int', y='int', s='str', f='float', n='int', v='int', z='int')
CONTROL_OCE = ('f', 'n', 'v')     # excluded from optimistic checks: float, optimistic=False, volatile
CONTROL_URE = ('v',)              # re-reading a changed float / optimistic=False attribute may raise (C21), volatile not
FIXTURE = {1: dict(id=1, x=0, y=0, s='s', f=0.5, n=0, v=0, z=0), 2: dict(id=2, x=0, y=0, s='s', f=0.5, n=0, v=0, z=0)}

def define(db, orm):
    class A(db.Entity):
        id = orm.PrimaryKey(int)
        x = orm.Required(int)
        y = orm.Required(int)
        s = orm.Required(str)
        f = orm.Required(float)
        n = orm.Required(int, optimistic=False)
        v = orm.Required(int, volatile=True)
        z = orm.Required(int)        # a checked attribute declared AFTER the excluded ones

def populate(E):
    for o in sorted(FIXTURE): E['A'](**FIXTURE[o])

def make_world(name='acct'):
    return tx.World(name, define, populate)

def F(t, attr, v):
    k = KIND[attr]
    if k == 'int': return v + 10 ** t
    if k == 'str': return v + 'abc'[t]
    return v + float(2 ** t)

def K(t, attr):
    k = KIND[attr]
    if k == 'int': return 1000 * (t + 1)
    if k == 'str': return 'B%d' % t
    return 100.0 * (t + 1)

def N(t, attr):
    """value of a row created by thread t: differs from the blind-write constant K, so that a later blind write changes the row"""
    k = KIND[attr]
    if k == 'int': return 1000 * (t + 1) + 500
    if k == 'str': return 'N%d' % t
    return 100.0 * (t + 1) + 0.25

def new_row(t, o):
    return dict(id=o, x=N(t, 'x'), y=N(t, 'y'), s=N(t, 's'), f=N(t, 'f'), n=N(t, 'n'), v=N(t, 'v'), z=N(t, 'z'))

def P(name, *ops, **flags):
    return dict(name=name, ops=list(ops), flags=flags)

def sclass(prog):
    """class of a session program for signatures: how it protects itself"""
    ops = prog['ops']
    if any(op[0] == 'commit' for op in ops[:-1]):          # the db_session goes on after an explicit commit()
        first = [i for i, op in enumerate(ops) if op[0] == 'commit'][0]
        created = any(op[0] == 'new' for op in ops[:first])
        base = sclass(dict(prog, ops=[op for op in ops if op[0] != 'commit']))
        return 'multi-transaction %s%s' % ('created-object ' if created else '', base)
    f = prog['flags']
    if f.get('serializable'): return 'serializable'
    if f.get('optimistic') is False: return 'non-optimistic'
    if f.get('immediate'): return 'immediate'
    locks = [op for op in prog['ops'] if op[0] in ('getfu', 'selfu')]
    if locks:
        first = [i for i, op in enumerate(prog['ops']) if op[0] in ('getfu', 'selfu')][0]
        late = any(op[0] in ('r', 'get', 'selq', 'getby') for op in prog['ops'][:first])
        return '%s%s%s' % ('read-then-' if late else '', {'getfu': 'get_for_update', 'selfu': 'query.for_update'}[locks[0][0]],
                           {'': '', 'nowait': '(nowait)', 'skip': '(skip_locked)'}[locks[0][2]])
    return 'optimistic'

class Stop(Exception):
    pass

def interpret(t, prog, orm, A, note):
    """run the ops of one session program inside an open db_session"""
    ti = t
    objs, seen = {}, {}
    def mode_kw(mode):
        return dict(nowait=True) if mode == 'nowait' else dict(skip_locked=True) if mode == 'skip' else {}
    for op in prog['ops']:
        k = op[0]
        if k == 'get':
            objs[op[1]] = A[op[1]]
        elif k == 'getfu':
            obj = A.get_for_update(id=op[1], **mode_kw(op[2]))
            if obj is None: note('miss', op[1]); raise Stop()
            objs[op[1]] = obj; note('lock', op[1])
        elif k == 'selfu':
            o = op[1]
            res = orm.select('a for a in A if a.id == o', {'A': A, 'o': o}).for_update(**mode_kw(op[2]))[:]
            if not res: note('miss', o); raise Stop()
            objs[o] = res[0]; note('lock', o)
        elif k == 'selq':
            attr = op[1]; val = FIXTURE[1][attr]
            res = orm.select('a for a in A if a.%s == val' % attr, {'A': A, 'val': val})[:]
            for obj in res:
                objs[obj.id] = obj; seen[(obj.id, attr)] = val; note('r', obj.id, attr, val)
        elif k == 'getby':
            o, attr = op[1], op[2]; val = FIXTURE[o][attr]
            obj = A.get(**{'id': o, attr: val})
            if obj is None: note('miss', o); raise Stop()
            objs[o] = obj; seen[(o, attr)] = val; note('r', o, attr, val)
        elif k == 'r':
            o, attr = op[1], op[2]
            if o not in objs: objs[o] = A[o]
            val = getattr(objs[o], attr)
            seen[(o, attr)] = val; note('r', o, attr, val)
        elif k == 'w':
            o, attr, src = op[1], op[2], op[3]
            if o not in objs: objs[o] = A[o]
            new = K(ti, attr) if src is None else F(ti, attr, seen[(o, src)])
            setattr(objs[o], attr, new)
            seen[(o, attr)] = new; note('w', o, attr, new, src)
        elif k == 'del':
            o = op[1]
            if o not in objs: objs[o] = A[o]
            objs[o].delete(); note('del', o)
        elif k == 'new':
            o = op[1]
            objs[o] = A(**new_row(ti, o)); note('new', o)
        elif k == 'flush': orm.flush()
        elif k == 'commit': orm.commit(); note('committed')
        elif k == 'refetch':
            o = op[1]
            if o not in objs: objs[o] = A[o]
            orm.select('a for a in A if a.id == o', {'A': A, 'o': o})[:]
        else: raise core.HarnessError('unknown op %r' % (op,))

def body_of(prog):
    """thread body for tx.Explorer; the result is a JSON-able dict, exceptions are classified here"""
    def body(t):
        orm = t.orm
        A = t.E['A']
        try:
            with orm.db_session(**prog['flags']):
                try: interpret(t.index, prog, orm, A, t.note)
                except Stop: pass
                t.note('leaving')
            return dict(status='ok')
        except core.HarnessError: raise
        except Exception as e:
            pony = isinstance(e, (orm.core.OrmError, orm.dbapiprovider.DBException))
            return dict(status='exc', cls=type(e).__name__, pony=pony, msg=str(e)[:200])
    body.__name__ = prog['name']
    return body

# ---- reading an execution ----------------------------------------------------------------------------
class View(object):
    """everything the monitors need from one execution of account-model programs"""
    def __init__(self, world, progs, x):
        self.world, self.progs, self.x = world, progs, x
        n = len(progs)
        self.n = n
        self.res = [r[1] if r[0] == 'ok' else dict(status='engine', cls=r[0], pony=False, msg=str(r[1:])) for r in x.results]
        self.ok = [r['status'] == 'ok' for r in self.res]
        self.rows = [world.rows(s, TABLE) for s in x.snaps]
        self.notes = [[] for _ in range(n)]              # per thread: (step, data)
        for step, t, data in x.notes: self.notes[t].append((step, data))
        self.change_steps = [j for j in range(len(x.trace)) if x.snaps[j] != x.snaps[j + 1]]
        self.commit_steps = [[] for _ in range(n)]
        for j in self.change_steps: self.commit_steps[x.trace[j][0]].append(j)
        self.final = self.rows[-1]
        # transactions of every session: an explicit commit() that returned (note 'committed') closes one; the
        # last one is closed by the end of the db_session and is committed iff the session ended normally
        self.txns = [[] for _ in range(n)]
        for t in range(n):
            lo, cur = -1, []
            def close(hi, committed, t=t):
                steps = [j for j in self.commit_steps[t] if lo < j <= hi]
                self.txns[t].append(dict(notes=list(cur), committed=committed, lo=lo, hi=hi, steps=steps,
                                         commit_step=steps[-1] if steps else None))
            for step, d in self.notes[t]:
                if d[0] == 'committed':
                    close(step, True)
                    lo, cur = step, []
                else: cur.append((step, d))
            close(len(x.trace), self.ok[t])
    def txn_of(self, t, j):
        for tr in self.txns[t]:
            if tr['lo'] < j <= tr['hi']: return tr
        return self.txns[t][-1]
    def of(self, t, kind):
        return [(step, d) for step, d in self.notes[t] if d[0] == kind]
    def last_end(self, t):
        """index of the last commit/rollback transition of thread t (end of its session), or None"""
        for j in range(len(self.x.trace) - 1, -1, -1):
            tt, lab = self.x.trace[j]
            if tt == t and lab[0] in ('commit', 'rollback'): return j
        return None
    def sample(self):
        return sample_of(self.progs, self.x, self, 24)
    def outcome(self):
        return (tuple((r['status'], r.get('cls')) for r in self.res),
                tuple(sorted((o, tuple(sorted(r.items()))) for o, r in self.final.items())))

def changed_columns(before, after):
    """{(o, column)} differing between two {pk: row} states; a created/deleted row counts with column '*'"""
    out = set()
    for o in set(before) | set(after):
        if o not in before or o not in after: out.add((o, '*'))
        else: out.update((o, c) for c in before[o] if before[o][c] != after[o][c])
    return out

# ---- monitors (each returns a list of (signature-tail, message)) ---------------------------------------
def mon_commit_attribution(v):
    """(iii) committed rows change only in a 'commit' transition of a transaction that ends successfully (the
    session's normal end or an explicit commit() that returned); a successfully committed transaction that wrote
    something has such a transition"""
    out = []
    for j in v.change_steps:
        t, lab = v.x.trace[j]
        name = v.progs[t]['name']
        if lab[0] != 'commit':
            out.append(('rows-changed-outside-commit|%s|%s' % (sclass(v.progs[t]), lab[0]), 'step %d %r changed committed rows' % (j, lab)))
        elif not v.txn_of(t, j)['committed']:
            out.append(('failed-session-left-trace|%s|%s' % (sclass(v.progs[t]), v.res[t].get('cls')),
                        'session T%d failed with %s but its commit at step %d changed rows: %r'
                        % (t, v.res[t].get('cls'), j, sorted(changed_columns(v.rows[j], v.rows[j + 1])))))
    for t in range(v.n):
        for tr in v.txns[t]:
            wrote = [d for _, d in tr['notes'] if d[0] in ('w', 'new')]      # a DELETE of an already deleted row is a legitimate no-op
            if tr['committed'] and wrote and not tr['steps']:
                out.append(('successful-session-committed-nothing|%s' % sclass(v.progs[t]),
                            'session T%d committed normally after %r but no commit of it changed rows' % (t, wrote[:3])))
    return out

def compose(v):
    """serial composition, in commit order, of the successful sessions' updates; returns
    (expected rows, exempt {(o, attr)}, problems)"""
    state = {o: dict(r) for o, r in v.rows[0].items()}
    exempt, problems = set(), []
    v.culprits = {}          # (o, attr) -> classes of the sessions that committed a value computed from a stale read
    order = sorted((tr['commit_step'], t, k) for t in range(v.n) for k, tr in enumerate(v.txns[t])
                   if tr['committed'] and tr['steps'])
    for _, t, k in order:
        view = {o: dict(r) for o, r in state.items()}
        for _, d in v.txns[t][k]['notes']:
            if d[0] == 'w':
                _, o, attr, new, src = d
                if o not in view:
                    problems.append(('update-of-deleted-row-committed|%s' % sclass(v.progs[t]),
                                     'T%d committed an update of A[%s], which an earlier committed session deleted' % (t, o)))
                    continue
                view[o][attr] = K(t, attr) if src is None else F(t, attr, view[o][src])
                if view[o][attr] != new:
                    v.culprits.setdefault((o, attr), set()).add('%s from %s' % (sclass(v.progs[t]), 'itself' if src == attr else 'another ' + KIND[src] + ' attribute'))
                if src is not None and src in CONTROL_OCE: exempt.add((o, attr))
            elif d[0] == 'del':
                view.pop(d[1], None)
            elif d[0] == 'new':
                view[d[1]] = new_row(t, d[1])
        state = view
    return state, exempt, problems

def mon_composition(v, counters):
    """(ii) per row: the final row is the composition in commit order of the committed updates"""
    expected, exempt, out = compose(v)
    for o in sorted(set(expected) | set(v.final)):
        if o not in expected or o not in v.final:
            out.append(('lost-update|row-existence', 'A[%s]: expected %r, final %r' % (o, expected.get(o), v.final.get(o))))
            continue
        for attr in sorted(KIND):
            if expected[o][attr] != v.final[o][attr]:
                if (o, attr) in exempt:
                    counters['control_lost_update'] = counters.get('control_lost_update', 0) + 1
                    continue
                out.append(('lost-update|%s|committed over a stale read by: %s' % (KIND[attr], '; '.join(sorted(v.culprits.get((o, attr), ()))) or 'unknown'),
                            'A[%s].%s: composition in commit order gives %r, database has %r'
                            % (o, attr, expected[o][attr], v.final[o][attr])))
    return out

def mon_stale_read(v, counters):
    """(i) a successfully committed transaction that updated o: every attribute the SESSION read from o (in this or an
    earlier transaction of the same db_session - the cached value is what the session goes on working with) and did
    not overwrite still had the value it read last when the update was committed (unless excluded from optimistic
    checks). Locks need no special case: while a lock is held nobody else commits a change, and a lock ends with
    its transaction. An attribute the session itself wrote in an earlier transaction is known only if read again."""
    out = []
    for t in range(v.n):
        known = {}                       # (o, attr) -> value the session read last (own writes of earlier transactions forget it)
        for k, tr in enumerate(v.txns[t]):
            c = tr['commit_step']
            written = {}
            for _, d in tr['notes']:
                if d[0] == 'w': written.setdefault(d[1], set()).add(d[2])
                elif d[0] == 'new': written.pop(d[1], None)        # the row did not exist before this commit
            for _, d in tr['notes']:
                if d[0] == 'new': written.pop(d[1], None)
            for step, d in tr['notes']:
                if d[0] == 'r' and (c is None or step < c): known[(d[1], d[2])] = d[3]
            if tr['committed'] and c is not None:
                before = v.rows[c]
                for (o, attr), val in sorted(known.items()):
                    if o not in written or attr in written[o]: continue
                    cur = before.get(o, {}).get(attr, '<row deleted>')
                    if cur != val:
                        if attr in CONTROL_OCE:
                            counters['control_changed_silently'] = counters.get('control_changed_silently', 0) + 1
                        else:
                            how = [op[0] for op in v.progs[t]['ops'] if op[0] in ('selq', 'getby') and op[-1] == attr] or ['attribute']
                            out.append(('stale-read-committed|%s|%s read via %s' % (sclass(v.progs[t]), KIND[attr], how[0]),
                                        'T%d read A[%s].%s = %r, updated A[%s] and committed although the committed value had become %r'
                                        % (t, o, attr, val, o, cur)))
                    else: counters['reads_still_valid_at_commit'] = counters.get('reads_still_valid_at_commit', 0) + 1
            for _, d in tr['notes']:
                if d[0] == 'w': known.pop((d[1], d[2]), None)
                elif d[0] == 'del': 
                    for key in [key for key in known if key[0] == d[1]]: known.pop(key)
    return out

def mon_spurious(v, counters):
    """control group: OptimisticCheckError / UnrepeatableReadError need a justification: another session
    committed a change to a checked column (or the existence) of a row this session had touched"""
    out = []
    for t in range(v.n):
        r = v.res[t]
        if r['status'] != 'exc' or r['cls'] not in ('OptimisticCheckError', 'UnrepeatableReadError'): continue
        counters[r['cls']] = counters.get(r['cls'], 0) + 1
        control = CONTROL_OCE if r['cls'] == 'OptimisticCheckError' else CONTROL_URE
        touched = set(d[1] for _, d in v.notes[t] if d[0] in ('r', 'w', 'del', 'lock'))
        touched |= set(op[1] for op in v.progs[t]['ops'] if op[0] in ('get', 'r', 'w', 'del', 'refetch', 'getfu', 'selfu', 'getby'))
        if any(op[0] == 'selq' for op in v.progs[t]['ops']): touched |= set(FIXTURE)
        justified = False
        for j in v.change_steps:
            if v.x.trace[j][0] == t: continue
            for (o, col) in changed_columns(v.rows[j], v.rows[j + 1]):
                if o in touched and col not in control: justified = True
        if not justified:
            reads = sorted(set(d[2] for _, d in v.notes[t] if d[0] == 'r'))
            kinds = sorted(set(('volatile' if a == 'v' else 'optimistic=False' if a == 'n' else KIND[a]) for a in reads))
            out.append(('control-raised|%s|%s|read %s' % (r['cls'], sclass(v.progs[t]), ','.join(kinds) or 'nothing'),
                        'T%d failed with %s (%s) although no other session changed a checked column of a row it touched'
                        % (t, r['cls'], r['msg'])))
    return out

def mon_unexpected(v):
    out = []
    for t in range(v.n):
        r = v.res[t]
        if r['status'] == 'exc' and not r['pony']:
            out.append(('unexpected-exception|%s|%s' % (r['cls'], sclass(v.progs[t])), 'T%d (%s) died with %s: %s' % (t, v.progs[t]['name'], r['cls'], r['msg'])))
        elif r['status'] == 'engine':
            out.append(('engine-result|%s' % r['cls'], repr(r)))
    return out

def mon_lock_window(v, counters):
    """C35: from the moment a session has locked row o (note 'lock') - for a serializable / immediate session:
    from its first read - until the end of that transaction (explicit commit() or the last commit/rollback transition), no other session's commit changes row o"""
    out = []
    for t in range(v.n):
        flags = v.progs[t]['flags']
        whole = flags.get('serializable') or flags.get('immediate') or flags.get('optimistic') is False
        end = v.last_end(t)
        if end is None: end = len(v.x.trace) - 1
        # one window per (transaction, row): an explicit commit() in the middle of the db_session ends the locks
        windows, first = [], {}
        for step, d in v.notes[t]:
            if d[0] == 'lock' or (whole and d[0] == 'r'): first.setdefault(d[1], step)
            elif d[0] == 'committed':
                windows += [(o, start, step) for o, start in sorted(first.items())]; first = {}
        windows += [(o, start, end) for o, start in sorted(first.items())]
        for o, start, stop in windows:
            counters['lock_windows'] = counters.get('lock_windows', 0) + 1
            for j in v.change_steps:
                if start < j <= stop and v.x.trace[j][0] != t and any(oo == o for oo, _ in changed_columns(v.rows[j], v.rows[j + 1])):
                    u = v.x.trace[j][0]
                    out.append(('locked-row-overwritten|%s' % sclass(v.progs[t]),
                                'T%d (%s) had A[%s] locked/read since step %d until step %d, but T%d (%s) committed a change to it at step %d'
                                % (t, v.progs[t]['name'], o, start, stop, u, v.progs[u]['name'], j)))
                    break
    return out

# ---- generic worker ---------------------------------------------------------------------------------
def sample_of(progs, x, v, limit=40):
    return dict(programs=[p['name'] for p in progs], schedule=''.join(str(t) for t in x.schedule()),
                preemptions=x.preemptions, trace=x.describe(limit),
                results=[(r['status'], r.get('cls')) for r in v.res],
                final={str(o): r for o, r in v.final.items()})

def case_of(prop, progs, x, extra=None):
    c = dict(property=prop, programs=progs, choices=list(x.choices), schedule=''.join(str(t) for t in x.schedule()))
    if extra: c.update(extra)
    return c

# ---- PostgreSQL statement-log model (DM transaction model) -------------------------------------------
class PgCursor(object):
    def __init__(self, con): self.con = con; self.rows = []; self.rowcount = -1; self.description = []
    def execute(self, sql, args=None):
        self.con.log.append(('execute', sql, args, self.con.autocommit))
        s = sql.lstrip().upper()
        self.rows, self.rowcount = [], -1
        if s.startswith('SELECT'):
            cols = re.findall(r'"a"\."(\w+)"|"(\w+)"', sql.split('FROM')[0])
            cols = [a or b for a, b in cols]
            m = re.search(r'"id" = %\((p\d+)\)s', sql)
            ids = [args[m.group(1)]] if (m and isinstance(args, dict)) else sorted(FIXTURE)
            self.rows = [tuple(FIXTURE[o][c] for c in cols) for o in ids if o in FIXTURE]
            self.rowcount = len(self.rows)
        elif s.startswith(('UPDATE', 'DELETE', 'INSERT')):
            self.rowcount = 1
    def executemany(self, sql, args): self.con.log.append(('executemany', sql, args, self.con.autocommit))
    def fetchone(self): return self.rows.pop(0) if self.rows else None
    def fetchmany(self, size=None):
        size = size or 1
        r, self.rows = self.rows[:size], self.rows[size:]
        return r
    def fetchall(self):
        r, self.rows = self.rows, []
        return r
    def close(self): pass

class PgConnection(object):
    """fake psycopg2 connection: autocommit flag, statement log. A statement executed with autocommit=True
    is its own transaction; otherwise it belongs to the transaction ended by the next commit/rollback."""
    def __init__(self):
        self.autocommit = True
        self.log = []
    def cursor(self): return PgCursor(self)
    def commit(self): self.log.append(('commit', None, None, self.autocommit))
    def rollback(self): self.log.append(('rollback', None, None, self.autocommit))
    def close(self): self.log.append(('close', None, None, self.autocommit))

class PgPool(object):
    def __init__(self): self.con = None
    def connect(self):
        new = self.con is None
        if new: self.con = PgConnection()
        return self.con, new
    def release(self, con): con.rollback()
    def drop(self, con): self.con = None
    def disconnect(self): self.con = None

def pg_database():
    """the REAL PGProvider / PGSQLBuilder / Database._exec_sql on a fake connection"""
    from vf import stubs
    stubs.install_all()
    from pony import orm
    from pony.orm.dbproviders import postgres
    class Provider(postgres.PGProvider):
        server_version = 160000
        def inspect_connection(provider, connection): pass
    class Db(orm.Database):
        def generate_mapping(database, **kw):
            return orm.Database.generate_mapping(database, create_tables=False, check_tables=False)
    db = Db()
    pool = PgPool()
    db.bind(Provider, pony_check_connection=False, pony_pool_mockup=pool)
    define(db, orm)
    db.generate_mapping()
    return db, pool

def run_on_pg(db, pool, prog, t=0):
    """run one session program alone on the PostgreSQL model; returns (result, statement log, read notes)"""
    from pony import orm
    notes = []
    def note(*d): notes.append(d)
    pool.con = None
    try:
        with orm.db_session(**prog['flags']):
            try: interpret(t, prog, orm, db.entities['A'], note)
            except Stop: pass
        res = ('ok', None)
    except Exception as e:
        res = ('exc', type(e).__name__ + ': ' + str(e)[:200])
    log = list(pool.con.log) if pool.con is not None else []
    orm.core.local.db_session = None
    db.disconnect()
    return res, log, notes

def where_columns(sql):
    """column names compared in the WHERE clause of an UPDATE"""
    return re.findall(r'"(\w+)" (?:=|IS NULL)', sql.split('WHERE', 1)[1]) if 'WHERE' in sql else []

# ---- exploring one program tuple; aggregation (shared by C20, C21, C35) --------------------------------
def explore_item(item, seed, sub, prop, progs, judge, world_factory=None, body_factory=None, view_factory=None):
    """item = (kind, program names, preemption bound | None = all interleavings, 'visible' | 'all').
    judge(view, counters) -> [(signature, message)]. Returns the explorer statistics + outcome set."""
    import random
    kind, names, bound, points = item
    tx.pin_worker()
    world = (world_factory or make_world)()
    body_factory = body_factory or body_of
    view_factory = view_factory or View
    try:
        ex = tx.Explorer(world, [body_factory(p) for p in progs], observe=True, points=points)
        outcomes, counters, reported, samples = set(), {}, set(), []
        def bump(k, n=1): counters[k] = counters.get(k, 0) + n
        def visit(x):
            v = view_factory(world, progs, x)
            outcomes.add(v.outcome())
            if x.waits: bump('executions_with_a_session_waiting_on_the_lock')
            for r_ in v.res:
                if r_['status'] == 'exc': bump('exc_' + r_['cls'])
            for sig, msg in judge(v, counters):
                if sig not in reported:
                    reported.add(sig)
                    tx.check_replay(ex, x)          # must reproduce identically before it is reported
                sub.violation(sig, case_of(prop, progs, x, dict(points=points, trace=x.describe(40))), msg)
            if ex.executions in (2, 5) and kind != 'xcheck': samples.append(v.sample())
        st = ex.explore(bound, visit, rng=random.Random(seed) if seed else None)
        if kind != 'xcheck' and ex.executions:
            tx.check_replay(ex, ex.run(()))         # determinism spot check on every program tuple
            bump('replay_determinism_checks')
        for k, n in counters.items(): sub.count(k, n)
        st['outcomes'] = sorted(outcomes, key=repr)
        st['samples'] = samples
        return st
    finally:
        world.close()

def merge(ctx, results):
    """deterministic aggregation (sorted by item) of worker results"""
    agg = dict(states=0, transitions=0, executions=0, traces=0, deadlocks=0, outcomes=0, by_pre={}, per_kind={}, bounds={})
    xsets = {}
    for res in sorted(results, key=lambda r: repr(r['item'])):
        kind, names, bound, points = res['item']
        st = res['stats']
        core.absorb(ctx, res['sub'])
        if kind == 'xcheck':
            xsets[tuple(names)] = (st['outcomes'], st['executions'])
            ctx.count('xcheck_executions_all_points', st['executions'])
            continue
        agg['states'] += st['states']; agg['transitions'] += st['transitions']; agg['executions'] += st['executions']
        agg['traces'] += st['distinct_traces']; agg['deadlocks'] += st['deadlocks']; agg['outcomes'] += len(st['outcomes'])
        for k, n in st['by_preemptions'].items(): agg['by_pre'][k] = agg['by_pre'].get(k, 0) + n
        pk = agg['per_kind'].setdefault(kind, dict(program_tuples=0, executions=0, tuples_with_more_than_one_outcome=0))
        pk['program_tuples'] += 1; pk['executions'] += st['executions']
        pk['tuples_with_more_than_one_outcome'] += len(st['outcomes']) > 1
        agg['bounds'].setdefault(kind, set()).add(str(st['bound_completed']))
        if st['capped']: ctx.cap('execution cap hit for %r' % (names,))
        for s in st['samples'][:1]: ctx.sample(s)
    agg['xsets'] = xsets
    return agg

def xcheck(ctx, agg, results):
    """the point reduction (cursor/connect/close/PRAGMA/no-op commit+rollback are not scheduling points) must
    not lose outcomes: the same tuples explored with EVERY driver call as a point give only outcomes that
    the reduced exploration has seen too"""
    ref = {}
    for res in results:
        kind, names, bound, points = res['item']
        if kind != 'xcheck': ref.setdefault(tuple(names), set()).update(map(repr, res['stats']['outcomes']))
    n = 0
    for names, (outs, execs) in sorted(agg['xsets'].items()):
        if not set(map(repr, outs)) <= ref.get(names, set()):
            raise core.HarnessError('point reduction lost/changed outcomes for %r' % (names,))
        n += 1
    ctx.count('xcheck_tuples_all_points_outcomes_contained', n)

def coverage(ctx, agg):
    ctx.cov.update(distinct_traces=agg['traces'], distinct_outcomes_summed_over_program_tuples=agg['outcomes'],
                   executions_by_preemptions=agg['by_pre'], deadlocks=agg['deadlocks'], per_kind=agg['per_kind'],
                   preemption_bound_completed={k: sorted(v) for k, v in agg['bounds'].items()})
    ctx.assume('scheduling points: execute/executemany, commit/rollback inside a transaction, acquires of the provider locks; '
               'cursor()/connect/close/connection-local PRAGMA/no-op commit+rollback are folded into the preceding transition '
               '(cross-checked against all-driver-calls-are-points on %d tuples)' % len(agg['xsets']))
    ctx.assume('timeout=0: SQLite busy conflicts are immediate errors; cooperative scheduling hides races inside one transition')
    return dict(states=agg['states'], transitions=agg['transitions'], traces_validated_against_impl=agg['executions'])

def guards(ctx, specs):
    """vacuity guards [(name, value, minimum)]. A guard that is not met while the run reports NEW violations is
    recorded but does not turn the verdict into 'harness broken': the run is not a silent pass, and a defect
    that makes OptimisticCheckError disappear must be reported as the violation it is (exit 1)."""
    known = core.load_known()
    new = [sig for sig in ctx.found if not core.match_known(known, ctx.prop, sig)]
    unmet = []
    for name, value, minimum in specs:
        if value >= minimum or not new: ctx.guard(name, value, minimum)
        else: unmet.append(dict(name=name, value=value, minimum=minimum))
    if unmet: ctx.cov['guards_not_met_while_violations_are_reported'] = unmet
