"""C24 Query methods agree with list semantics of the full ordered result.

Bounded-exhaustive enumeration. Base queries (entities; value projections with duplicates and None; tuples
with and without the primary key; one-to-many and many-to-many joins; grouped and aggregate-only queries; four
of them already ordered) over four dedicated data sets of 4 / 2 / 1 / 0 persons (ties, duplicates, None values)
x ALL method chains of length <= 2 (quick) / <= 3 (thorough) over the alphabet

  query -> query : distinct(), without_distinct(), order_by(None); filter(lambda with an external parameter),
                   filter("lambda text"), filter("text"), filter(**kw), filter(attr=None), where(lambda), where("text"),
                   where(**kw), where(lambda over a variable that is not in the result); order_by(attr), order_by(desc(attr)),
                   order_by(lambda), order_by(lambda args), sort_by(lambda args), order_by("text"), order_by("desc(text)"),
                   order_by(n), order_by(-n), order_by(lambda: (k1, desc(k2))), order_by(lambda over a hidden variable);
                   with an AGGREGATE OVER A COLLECTION of an entity result column x (Person.tags, Dept.persons, Tag.persons;
                   such a step makes Pony rebuild the query from its original tree - LEFT JOIN + GROUP BY - and REPLAY
                   every recorded filter / where / order_by step): where(lambda: count(x.coll) < c) with an external
                   parameter, filter("sum(x.coll.attr) >= c") (attribute lifting), filter(lambda x: count(x.coll) < c),
                   order_by(lambda: desc(count(x.coll))), order_by(lambda x: sum(x.coll.attr)) - on every query whose
                   result has an entity column, except aggregated queries and queries over a limited subquery;
                   select(x for x in q.limit(l, o)), select(x for x in q.page(p, s)), select(x for x in q[a:b]);
                   select(y for y in E if y in q.limit(l, o)), select(y for y in E if y in q[:k])
  query -> answer: q[a:b], q[a:], q[:b], limit(l), limit(l, o), fetch(l, o), page(p, s), first(), get(), exists(),
                   count(), count(distinct=True|False), sum/avg (distinct None|True|False), min, max, group_concat(),
                   group_concat(sep), group_concat(distinct=True), random(k), len(q), list(q), delete(bulk=True|False)

with ALL bounds 0 <= a, b, l, o, s, k <= n+1 and 1 <= p <= n+1, n = number of rows of the query the method is
applied to. Length 2: every data set (n = 4, 2, 1, 0), every base, every form. Length 3 (thorough; CPU budget): the
data sets with n <= 3 (3, 2, 1, 0 persons) and the 15 bases that are not one filter / order_by away from another;
as SECOND step the page(p, s) / q[a:b] spellings of the limited subquery are left out and membership steps are
taken only after a non-window step and not expanded further; as THIRD method the window spellings q[a:b] and
limit(l, o) (full grids) stand for q[a:], q[:b], limit(l), fetch, page.
REPLAYED PAIRS (every tier, every data set of the tier, every base): after each recorded step s1 (distinct / order_by(None) /
condition / sort key) every recorded step s2 such that s1 or s2 contains an aggregate over a collection - ALL ordered pairs,
every form - is applied and judged, followed by the methods q[0:1], limit(1, 1), first(), exists(), count(). REPLAYED TRIPLES (thorough, all five data sets): ALL sequences of three recorded steps of pairwise different
classes out of {keyword filter, plain condition, condition with an aggregate, sort key with an aggregate} with at least one
aggregate - every order, every form of each class - judged step by step and followed by the same methods. The model of an
aggregate condition / sort key is the QX reference evaluator applied to the mirror objects of the row. Every step is judged against the Python list operation on the ACTUAL full result R of its
predecessor (see _c24_lib); the base result is cross-checked against the QX reference evaluator. An exception
from Pony is a refusal (counted), except for plain uses directly on a base query, which must be answered.

Signatures: failing chains are shrunk by deleting steps while the failure kind persists; the signature is the
family skeleton of the shrunk chain, the failure kind and the sets of base kinds / concrete forms / bound classes
('limit=0', 'offset>=n', 'offset+limit>n', 'offset>0', 'offset=0', 'empty result', ...) on which it fails.
"""
import os, sys, time, json
from vf import core
from vf.engines import qx
from vf.engines.qx import call, const, attr, var, COND, src, canon, Obj, EntRef
from vf.props import _c24_lib as L
from vf.props._c24_lib import Node, MRow, crow, Counter

LEVEL = 'exploration'

# ------------------------------------------------------------------------------------------------
# node construction
def root(ds, base):
    db, data, snap = L.get_db(ds)
    n = Node(ds, base, data)
    n.db = db
    n.mq = base.q
    n.orig = [src(p) for p in (base.q.proj if isinstance(base.q.proj, tuple) else (base.q.proj,))]
    n.auto = base.q.distinct() and not n.aggregated
    for k, d in base.q.order:
        # base orders are written over result columns or their attributes
        n.order.append(order_key_of_tree(n, k, d))
    for f in ('cond', 'k1', 'k2', 'kw', 'kwnone', 'wkw', 'hcond', 'hkey'): setattr(n, f, getattr(base, f))
    n.B = L.qx_rows(n)
    n.inherited = False
    n.pq = base.q.make(db, 'gen')
    return n

def order_key_of_tree(n, k, d):
    t = src(k)
    for i, o in enumerate(n.orig):
        if t == o: return ('col', i, None, d)
        if t.startswith(o + '.') and '.' not in t[len(o) + 1:]: return ('col', i, t[len(o) + 1:], d)
    return ('hid', k, d)

def G(node, **kw):
    g = qx.base_globals(node.db)
    g.update(kw)
    return g

def fetch_node(node):
    node.Rn = [qx.norm_row(r) for r in node.pq[:]]
    node.R = [crow(r) for r in node.Rn]

def lit(v): return repr(v)
def lhs(node, col, a, scope):
    b = node.rn[col][0] if scope == 'res' else node.orig[col]
    return b + ('.' + a if a else '')
def args_of(node): return ', '.join(nm for nm, _ in node.rn)

# ---- the step alphabet ----------------------------------------------------------------------------
def steps_for(node, level=1):
    """level 1: every form; level 2 (second step of a length-3 chain): the page / q[a:b] forms of the limited
    subquery are left out (they reach the same code as limit(l, o) after Python arithmetic) and membership steps
    are only taken directly after a non-window step"""
    out = []
    S = lambda fam, form, **a: out.append(dict(f=fam, form=form, **a))
    S('distinct', 'distinct()'); S('distinct', 'without_distinct()'); S('unorder', 'order_by(None)')
    single_ent = len(node.rn) == 1 and qx.is_ent(node.rn[0][1])
    S('cond', 'filter(lambda)'); S('cond', 'filter("lambda")'); S('cond', 'filter("text")')
    S('cond', 'where(lambda)'); S('cond', 'where("text")')
    if single_ent and node.kw: S('cond', 'filter(**kw)'); S('cond', 'filter(attr=None)')
    if node.wkw: S('cond', 'where(**kw)')
    if node.hcond is not None and node.src == 'qx': S('cond', 'where(lambda hidden)')
    if single_ent: S('order', 'order_by(attr)'); S('order', 'order_by(desc(attr))')
    for f in ('order_by(lambda)', 'order_by(lambda args)', 'sort_by(lambda args)', 'order_by("text")', 'order_by("desc(text)")',
              'order_by(n)', 'order_by(-n)', 'order_by(lambda tuple)'): S('order', f)
    if node.hkey is not None and node.src == 'qx': S('order', 'order_by(lambda hidden)')
    tg = L.agg_target(node)
    if tg is not None and not node.wrapped:
        # conditions / sort keys with an aggregate over a collection (they make Pony rebuild the query from its
        # original tree - LEFT JOIN + GROUP BY - and replay every recorded filter / where / order_by step)
        S('aggcond', 'where(lambda: count(coll) < c)', agg=1); S('aggcond', 'filter("sum(coll.attr) >= c")', agg=1)
        S('aggcond', 'filter(lambda args: count(coll) < c)', agg=1)
        S('aggorder', 'order_by(lambda: desc(count(coll)))', agg=1); S('aggorder', 'order_by(lambda args: sum(coll.attr))', agg=1)
    n = len(node.R)
    rng = range(0, n + 2)
    for l in rng:
        for o in rng: S('sub', 'for x in q.limit(l, o)', args=[l, o])
    if level == 1:
        for p in range(1, n + 2):
            for s in rng: S('sub', 'for x in q.page(p, s)', args=[p, s])
        for a, b in ((0, 1), (1, n + 1)): S('sub', 'for x in q[a:b]', args=[a, b])
    if node.insrc is not None and (level == 1 or not node.wrapped):
        for l in rng:
            for o in rng: S('in', 'y in q.limit(l, o)', args=[l, o])
        for k in rng: S('in', 'y in q[:k]', args=[k])
    return out

def _kw_x(node, kw):
    v0 = node.base.q.fors[0][0]
    ent = node.base.q.fors[0][1].v
    out = []
    for a, c in sorted(kw.items()):
        lhs_ = attr(var(v0, ent), a)
        out.append(call('is_none', COND, lhs_) if c is None else call('eq', COND, lhs_, const(c)))
    return out

def apply_step(node, st):
    """child node with its pony query and model (not yet executed); raises what Pony raises"""
    from pony import orm
    c = node.child(st)
    pq, fam, form = node.pq, st['f'], st['form']
    if fam == 'distinct':
        if form == 'distinct()': c.pq = pq.distinct(); c.distinct = True
        else: c.pq = pq.without_distinct(); c.distinct = False
    elif fam == 'unorder':
        c.pq = pq.order_by(None); c.order = []; c.inherited = False; c.dropped = False
    elif fam in ('cond', 'aggcond'):
        col, a, op, k = node.cond
        pr = ('col', col, a, op, k)
        res_t = '%s %s ' % (lhs(node, col, a, 'res'), L.OPS[op])
        orig_t = '%s %s ' % (lhs(node, col, a, 'orig'), L.OPS[op])
        if form == 'filter(lambda)':
            g = G(node, k=k); c.pq = pq.filter(eval('lambda %s: %sk' % (args_of(node), res_t), g), g, {})
        elif form == 'filter("lambda")': c.pq = pq.filter('lambda %s: %s%s' % (args_of(node), res_t, lit(k)), G(node), {})
        elif form == 'filter("text")': c.pq = pq.filter(orig_t + lit(k), G(node), {})
        elif form == 'where(lambda)':
            g = G(node, k=k); c.pq = pq.where(eval('lambda: %sk' % orig_t, g), g, {})
        elif form == 'where("text")': c.pq = pq.where(orig_t + lit(k), G(node), {})
        elif form == 'filter(**kw)': c.pq = pq.filter(**node.kw); pr = ('kw', 0, node.kw)
        elif form == 'filter(attr=None)': c.pq = pq.filter(**node.kwnone); pr = ('kw', 0, node.kwnone)
        elif form == 'where(**kw)':
            c.pq = pq.where(**node.wkw)
            if node.src == 'qx': pr = ('x', _kw_x(node, node.wkw))
            else: pr = ('kw', 0, node.wkw)
        elif form == 'where(lambda hidden)':
            g = G(node); c.pq = pq.where(eval('lambda: ' + src(node.hcond), g), g, {}); pr = ('x', [node.hcond])
        elif st.get('agg'):
            cnt, sm = L.agg_trees(node)[:2]
            rcnt = L.agg_trees(node, res=True)[0]
            bound = cnt.a[1].v
            if form == 'where(lambda: count(coll) < c)':
                g = G(node, k=bound); c.pq = pq.where(eval('lambda: %s < k' % src(cnt.a[0]), g), g, {}); pr = ('xp', cnt)
            elif form == 'filter("sum(coll.attr) >= c")': c.pq = pq.filter(src(sm), G(node), {}); pr = ('xp', sm)
            elif form == 'filter(lambda args: count(coll) < c)':
                g = G(node, k=bound); c.pq = pq.filter(eval('lambda %s: %s < k' % (args_of(node), src(rcnt.a[0])), g), g, {}); pr = ('xp', cnt)
            else: raise core.HarnessError(form)
        else: raise core.HarnessError(form)
        if pr[0] == 'x':
            q = node.mq
            c.mq = qx.Query(q.fors, q.proj, list(q.conds) + pr[1], q.order, q.order_style, q.dataset)
            c.B = L.qx_rows(c)
        else:
            c.post.append(pr)
            c.B = [r for r in node.B if L.pred_row(node, pr, r) is True]
    elif fam in ('order', 'aggorder'):
        (c1, a1), (c2, a2) = node.k1, node.k2
        g = G(node)
        if form == 'order_by(attr)':
            ent = getattr(node.db, node.rn[0][1]); c.pq = pq.order_by(getattr(ent, a1)); keys = [('col', c1, a1, False)]
        elif form == 'order_by(desc(attr))':
            ent = getattr(node.db, node.rn[0][1]); c.pq = pq.order_by(orm.desc(getattr(ent, a2))); keys = [('col', c2, a2, True)]
        elif form == 'order_by(lambda)': c.pq = pq.order_by(eval('lambda: ' + lhs(node, c1, a1, 'orig'), g), g, {}); keys = [('col', c1, a1, False)]
        elif form == 'order_by(lambda args)':
            c.pq = pq.order_by(eval('lambda %s: desc(%s)' % (args_of(node), lhs(node, c2, a2, 'res')), g), g, {}); keys = [('col', c2, a2, True)]
        elif form == 'sort_by(lambda args)':
            c.pq = pq.sort_by(eval('lambda %s: %s' % (args_of(node), lhs(node, c1, a1, 'res')), g), g, {}); keys = [('col', c1, a1, False)]
        elif form == 'order_by("text")': c.pq = pq.order_by(lhs(node, c1, a1, 'orig'), g, {}); keys = [('col', c1, a1, False)]
        elif form == 'order_by("desc(text)")': c.pq = pq.order_by('desc(%s)' % lhs(node, c2, a2, 'orig'), g, {}); keys = [('col', c2, a2, True)]
        elif form == 'order_by(n)': c.pq = pq.order_by(c1 + 1); keys = [('col', c1, None, False)]
        elif form == 'order_by(-n)': c.pq = pq.order_by(-(c2 + 1)); keys = [('col', c2, None, True)]
        elif form == 'order_by(lambda tuple)':
            c.pq = pq.order_by(eval('lambda: (%s, desc(%s))' % (lhs(node, c1, a1, 'orig'), lhs(node, c2, a2, 'orig')), g), g, {})
            keys = [('col', c1, a1, False), ('col', c2, a2, True)]
        elif form == 'order_by(lambda hidden)':
            k, d = node.hkey
            c.pq = pq.order_by(eval('lambda: ' + ('desc(%s)' % src(k) if d else src(k)), g), g, {}); keys = [('hid', k, d)]
        elif form == 'order_by(lambda: desc(count(coll)))':
            k = L.agg_trees(node)[2]
            c.pq = pq.order_by(eval('lambda: desc(%s)' % src(k), g), g, {}); keys = [('hid', k, True)]
        elif form == 'order_by(lambda args: sum(coll.attr))':
            k = L.agg_trees(node)[3]
            c.pq = pq.order_by(eval('lambda %s: %s' % (args_of(node), src(L.agg_trees(node, res=True)[3])), g), g, {}); keys = [('hid', k, False)]
        else: raise core.HarnessError(form)
        c.order = keys + node.order
    elif fam == 'sub':
        a = st['args']
        names = args_of(node)
        head = names if len(node.rn) == 1 else '(%s)' % names
        if form == 'for x in q.limit(l, o)': it, start, stop = 'q.limit(l, o)', a[1], a[1] + a[0]; g = G(node, q=pq, l=a[0], o=a[1])
        elif form == 'for x in q.page(p, s)': it, start, stop = 'q.page(l, o)', (a[0] - 1) * a[1], a[0] * a[1]; g = G(node, q=pq, l=a[0], o=a[1])
        else: it, start, stop = 'q[l:o]', a[0], a[1]; g = G(node, q=pq, l=a[0], o=a[1])
        c.pq = orm.select('%s for %s in %s' % (head, names, it), g, {})
        c.window = (start, stop)
    elif fam == 'in':
        a = st['args']
        ent, at = node.insrc
        y = 'y.' + at if at else 'y'
        if form == 'y in q.limit(l, o)': it, start, stop = 'q.limit(l, o)', a[1], a[1] + a[0]; g = G(node, q=pq, l=a[0], o=a[1])
        else: it, start, stop = 'q[:l]', 0, a[0]; g = G(node, q=pq, l=a[0])
        c.pq = orm.select('y for y in %s if %s in %s' % (ent, y, it), g, {})
        c.window = (start, stop)
    else: raise core.HarnessError(fam)
    return c

def to_mirror(node, v):
    if isinstance(v, EntRef): return node.data.get('Person' if v[0] == 'Student' else v[0], v[1])
    return v

def finish_wrap(parent, c):
    """model of a node that iterates over / tests membership in a window of its parent's result: built from the
    actual answers. Returns (kind | None, exact, undecided reason | None) for the node itself"""
    st = c.steps[-1]
    start, stop = c.window
    c.src, c.mq, c.post, c.distinct, c.order = 'list', None, [], None, []
    c.hcond = c.hkey = None
    c.wrapped = True; c.dropped = False
    if st['f'] == 'sub':
        c.inherited = bool(parent.order) or parent.inherited
        c.B = [MRow([to_mirror(c, v) for v in r], None) for r in c.Rn]
        for r in c.B: r.env = L.res_env(c, r.vals)
        c.orig = [nm for nm, _ in c.rn]
        dup = len(set(c.R)) != len(c.R)
        c.auto = 'either' if dup else False
        single_ent = len(c.rn) == 1 and qx.is_ent(c.rn[0][1])
        if not single_ent or c.aggregated: c.wkw = None
        elif c.wkw is None: c.wkw = L.ENT_KW[c.rn[0][1]][0]
        # the new query has no order of its own: compare as multisets against the window
        exp = parent.R[start:stop]
        if Counter(c.R) == Counter(exp): return None, True, None
        if L.total(parent):
            return ('wrong number of rows' if len(c.R) != len(exp) else 'wrong rows'), False, None
        return L.valid_window(parent, L.keymap(parent), sorted_by(parent, c.R), start, stop), False, None
    # membership
    ent, at = parent.insrc
    c.inherited = False
    c.rn, c.orig = [('y', ent)], ['y']
    c.cond = (0,) + L.ENT_COND[ent]; c.k1 = (0, L.ENT_K1[ent]); c.k2 = (0, 'id')
    c.kw, c.kwnone = L.ENT_KW[ent]; c.wkw = c.kw
    c.insrc = (ent, None); c.aggregated = False; c.auto = False
    # the window: taken from Pony itself (the terminal checks judge it), exact when the parent order is total
    if st['form'] == 'y in q[:k]': W = [crow(qx.norm_row(r)) for r in parent.pq[:st['args'][0]]]
    else: W = [crow(qx.norm_row(r)) for r in parent.pq.limit(*st['args'])]
    members = set(w[0] for w in W)
    rows = []
    for o in c.data.ents[ent]:
        v = canon(getattr(o, at) if at else o)
        if v is None:
            if None in members: rows.append(MRow((o,), None, opt=True))     # Python: None in [None] is True; SQL: unknown
            continue
        if v in members: rows.append(MRow((o,), None))
    for r in rows: r.env = L.res_env(c, r.vals)
    got = Counter(c.R)
    k = L.ms_compare(rows, c.R, False)
    total = L.total(parent)
    c.B = [MRow([to_mirror(c, v) for v in r], None) for r in c.Rn]
    for r in c.B: r.env = L.res_env(c, r.vals)
    if k is None: return None, True, None
    if total or st['form'] == 'y in q[:k]': return k, False, None
    return None, False, 'window of a tied / unordered query inside a subquery'

def sorted_by(parent, rows):
    """rows re-ordered by the parent's keys (the wrapping query does not promise an order)"""
    km = L.keymap(parent)
    if km is None: return rows
    rows = list(rows)
    # insertion sort with the three-valued comparison
    out = []
    for r in rows:
        i = len(out)
        while i > 0 and km.get(out[i - 1]) is not None and km.get(r) is not None and qx._lt(km[r], km[out[i - 1]]) is True: i -= 1
        out.insert(i, r)
    return out

# ---- terminals -------------------------------------------------------------------------------------
def terminals_for(node, level=1):
    """level 3 (last method of a length-3 chain): of the window forms only the full q[a:b] and limit(l, o) grids"""
    out = []
    T = lambda fam, form, **a: out.append(dict(t=fam, form=form, **a))
    n = len(node.R)
    rng = range(0, n + 2)
    for a in rng:
        for b in rng: T('window', 'q[a:b]', args=[a, b])
    for l in rng:
        for o in rng: T('window', 'limit(l, o)', args=[l, o])
    if level == 4:
        # below the second step of a replayed pair (see pairs()): one method per way of reading the result
        out[:] = [t for t in out if (t['form'], t['args']) in (('q[a:b]', [0, 1]), ('limit(l, o)', [1, 1]))]
        for f in ('first()', 'exists()'): T(f[:-2] if f.endswith('()') else f, f)
        T('count', 'count()', args=[None])
        return out
    if level < 3:
        for a in rng: T('window', 'q[a:]', args=[a]); T('window', 'q[:b]', args=[a]); T('window', 'limit(l)', args=[a])
        for l in rng:
            for o in rng: T('window', 'fetch(l, o)', args=[l, o])
        for p in range(1, n + 2):
            for s in rng: T('window', 'page(p, s)', args=[p, s])
    for f in ('first()', 'get()', 'exists()', 'len(q)', 'list(q)'): T(f[:-2] if f.endswith('()') else f, f)
    for d in (None, True, False): T('count', 'count(distinct=%s)' % d if d is not None else 'count()', args=[d])
    for fn in ('sum', 'avg'):
        for d in (None, True, False): T('aggregate', '%s(distinct=%s)' % (fn, d) if d is not None else fn + '()', args=[fn, d])
    T('aggregate', 'min()', args=['min', None]); T('aggregate', 'max()', args=['max', None])
    T('group_concat', 'group_concat()', args=[None, None]); T('group_concat', "group_concat(sep)", args=['|', None])
    T('group_concat', 'group_concat(distinct=True)', args=[None, True])
    for k in rng: T('random', 'random(k)', args=[k])
    T('delete', 'delete(bulk=True)', args=[True]); T('delete', 'delete(bulk=False)', args=[False])
    return out

def window_of(t):
    f, a = t['form'], t['args']
    if f == 'q[a:b]': return a[0], a[1]
    if f == 'q[a:]': return a[0], None
    if f in ('q[:b]', 'limit(l)'): return 0, a[0]
    if f in ('limit(l, o)', 'fetch(l, o)'): return a[1], a[1] + a[0]
    if f == 'page(p, s)': return (a[0] - 1) * a[1], a[0] * a[1]
    raise core.HarnessError(f)

def call_window(pq, t):
    f, a = t['form'], t['args']
    if f == 'q[a:b]': r = pq[a[0]:a[1]]
    elif f == 'q[a:]': r = pq[a[0]:]
    elif f == 'q[:b]': r = pq[:a[0]]
    elif f == 'limit(l)': r = pq.limit(a[0])
    elif f == 'limit(l, o)': r = pq.limit(a[0], a[1])
    elif f == 'fetch(l, o)': r = pq.fetch(a[0], a[1])
    else: r = pq.page(a[0], a[1])
    return [crow(qx.norm_row(x)) for x in r]

def natural_keys(node, rows):
    """documented order of first() on an unordered query: by every result column (entities: primary key)"""
    return {r: [v[2] if isinstance(v, tuple) and v and v[0] == '$e' else v for v in r] for r in rows}

def minimal_rows(km, rows):
    out = []
    for r in rows:
        k = km.get(r)
        if k is None: out.append(r); continue
        if not any(km.get(o) is not None and qx._lt(km[o], k) is True for o in rows): out.append(r)
    return out

def single_values(node, rows):
    """values of the single result column with entities reduced to their key"""
    out = []
    for r in rows:
        v = r.vals[0]
        out.append(v.id if isinstance(v, Obj) else v)
    return out

def dedupe(rows):
    seen, out = set(), []
    for r in rows:
        if r.c not in seen: seen.add(r.c); out.append(r)
    return out

def agg_row_sets(node, d):
    """candidate row lists an aggregate with distinct=d works on (documented: sum/avg/group_concat default to ALL rows)"""
    B = [r for r in node.B]
    if d is True: return [dedupe(B)]
    if d is False: return [B]
    if node.distinct is True: return [dedupe(B)]
    if node.distinct is False: return [B]
    if node.auto == 'either': return [B, dedupe(B)]
    return [B]

def feq(a, b):
    if a is None or b is None: return a is None and b is None
    if isinstance(a, str) or isinstance(b, str): return a == b
    return abs(float(a) - float(b)) <= 1e-9 * max(1.0, abs(float(a)))

def run_terminal(node, t):
    """-> ('ok', exact) | ('viol', kind, bound class, detail) | ('undecided', why); raises what Pony raises"""
    fam, pq, R = t['t'], node.pq, node.R
    n = len(R)
    if fam == 'window':
        start, stop = window_of(t)
        got = call_window(pq, t)
        kind, exact = L.judge_window(node, got, start, stop)
        if kind is None: return ('ok', exact)
        return ('viol', kind, L.bound_class(n, start, stop), 'expected R[%s:%s] = %r of R = %r, got %r' % (start, stop, R[start:stop], R, got))
    bc = 'empty result' if n == 0 else '-'
    if fam == 'first':
        got = pq.first()
        g = None if got is None else crow(qx.norm_row(got))
        if g is None and n and len(node.rn) == 1 and (None,) in R: g = (None,)      # the first value IS None
        if n == 0:
            return ('ok', True) if g is None else ('viol', 'wrong value', bc, 'first() of an empty result: %r' % (g,))
        if g is None: return ('viol', 'wrong value', bc, 'first() is None, R = %r' % (R,))
        if g not in R: return ('viol', 'wrong value', bc, 'first() = %r is not in R = %r' % (g, R))
        if node.order:
            km = L.keymap(node)
            cands = R if km is None else minimal_rows(km, R)
        elif node.inherited: cands = R
        else: cands = minimal_rows(natural_keys(node, R), R)
        if g in cands: return ('ok', g == R[0])
        return ('viol', 'wrong value', 'ties' if len(cands) > 1 else bc, 'first() = %r, candidates %r of R = %r' % (g, cands, R))
    if fam == 'get':
        from pony.orm.core import MultipleObjectsFoundError
        try: got = pq.get()
        except MultipleObjectsFoundError:
            if n >= 2: return ('ok', True)
            return ('viol', 'MultipleObjectsFoundError for fewer than two rows', bc, 'R = %r' % (R,))
        g = None if got is None else crow(qx.norm_row(got))
        if g is None and n == 1 and R[0] == (None,): g = (None,)
        if n >= 2: return ('viol', 'no MultipleObjectsFoundError', bc, 'get() = %r, R = %r' % (g, R))
        exp = R[0] if n else None
        return ('ok', True) if g == exp else ('viol', 'wrong value', bc, 'get() = %r, R = %r' % (g, R))
    if fam == 'exists':
        got = pq.exists()
        return ('ok', True) if got is bool(R) else ('viol', 'wrong value', bc, 'exists() = %r, R = %r' % (got, R))
    if fam == 'len(q)':
        got = len(pq)
        return ('ok', True) if got == n else ('viol', 'wrong value', bc, 'len(q) = %r, R = %r' % (got, R))
    if fam == 'list(q)':
        got = [crow(qx.norm_row(x)) for x in pq]
        return ('ok', True) if got == R else ('viol', 'wrong rows', bc, 'list(q) = %r, q[:] = %r' % (got, R))
    if fam == 'count':
        d = t['args'][0]
        got = pq.count() if d is None else pq.count(distinct=d)
        if any(r.opt for r in node.B): return ('undecided', 'optional rows')
        B = node.B
        if d is True: sets = [dedupe(B)]
        elif d is False: sets = [B]
        else:
            e = node.eff_distinct()
            if node.dropped and node.distinct is None: e = 'either'     # ordered query that lost its automatic DISTINCT (judged at the ordering step)
            sets = [dedupe(B), B] if e == 'either' else [dedupe(B) if e else B]
        ok = set(len(s) for s in sets)
        strict = set(ok)
        if len(node.rn) == 1 and not qx.is_ent(node.rn[0][1]):
            ok |= set(len([r for r in s if r.vals[0] is not None]) for s in sets)      # COUNT(column) skips NULL: not fixed by the statement
        if got in strict: return ('ok', True)
        if got in ok: return ('ok', False)
        detail = 'count = %r, acceptable %r; R = %r' % (got, sorted(ok), R)
        if len(node.rn) > 1:
            first = [r.c[0] for r in B if r.c[0] is not None]
            if d is not False: first = set(first)
            if got == len(first): return ('viol', 'counts the first column only', bc, detail)
        return ('viol', 'wrong value', bc, detail)
    if fam == 'aggregate':
        fn, d = t['args']
        got = getattr(pq, fn)() if d is None else getattr(pq, fn)(distinct=d)
        if len(node.rn) != 1 or qx.is_ent(node.rn[0][1]): return ('undecided', 'aggregate of a non-scalar result answered')
        if any(r.opt for r in node.B): return ('undecided', 'optional rows')
        if fn in ('sum', 'avg') and node.rn[0][1] not in qx.NUM: return ('undecided', 'numeric aggregate of a non-numeric column answered')
        exps = []
        for rows in agg_row_sets(node, d):
            vs = [v for v in single_values(node, rows) if v is not None]
            if fn == 'sum': exps.append(sum(vs) if vs else 0)
            elif fn == 'avg': exps.append(sum(vs) / float(len(vs)) if vs else None)
            elif fn == 'min': exps.append(min(vs) if vs else None)
            else: exps.append(max(vs) if vs else None)
        if any(feq(e, got) for e in exps): return ('ok', True)
        detail = '%s = %r, expected %r; R = %r' % (t['form'], got, exps, R)
        if d is None and node.distinct is True and fn in ('sum', 'avg'):
            vs = [v for v in single_values(node, node.B) if v is not None]
            alt = (sum(vs) if vs else 0) if fn == 'sum' else (sum(vs) / float(len(vs)) if vs else None)
            if feq(alt, got): return ('viol', 'explicit distinct() ignored', bc, detail)
        return ('viol', 'wrong value', bc, detail)
    if fam == 'group_concat':
        sep, d = t['args']
        kw = {}
        if sep is not None: kw['sep'] = sep
        if d is not None: kw['distinct'] = d
        got = pq.group_concat(**kw)
        if len(node.rn) != 1: return ('undecided', 'group_concat of a tuple answered')
        if any(r.opt for r in node.B): return ('undecided', 'optional rows')
        exps = []
        for rows in agg_row_sets(node, d):
            vs = [v for v in single_values(node, rows) if v is not None]
            exps.append(sorted(gc_text(v) for v in vs) if vs else None)
        g = None if got is None else sorted(got.split(sep or ','))
        if g in exps: return ('ok', True)
        detail = '%s = %r, expected parts %r' % (t['form'], got, exps)
        if d is None and node.distinct is True:
            vs = [v for v in single_values(node, node.B) if v is not None]
            if g == (sorted(gc_text(v) for v in vs) if vs else None): return ('viol', 'explicit distinct() ignored', bc, detail)
        return ('viol', 'wrong value', bc, detail)
    if fam == 'random':
        k = t['args'][0]
        import random as _random
        _random.seed(20240924 + k)          # Pony's SQLite rand() is Python's random.random: one fixed draw per case
        got = [crow(qx.norm_row(x)) for x in pq.random(k)]
        bc = 'empty result' if n == 0 else ('k=0' if k == 0 else ('k>n' if k > n else 'k<=n'))
        bag = [r.c for r in node.B]
        detail = 'random(%d) = %r, R = %r' % (k, got, R)
        if node.distinct is None and node.auto is True and not node.dropped and not node.wrapped:
            # random() is order_by('random()')[:k]: whether the known loss of the automatic DISTINCT shows depends on the
            # draw unless k > n; only the size-based (deterministic) part is judged
            if len(got) == min(k, len(bag)) and not (Counter(got) - Counter(bag)):
                if len(got) > n: return ('viol', 'automatic DISTINCT dropped', bc, detail)
                return ('ok', not (Counter(got) - Counter(R)))
        if len(got) == min(k, n) and not (Counter(got) - Counter(R)): return ('ok', True)
        return ('viol', 'wrong number of rows' if len(got) != min(k, n) else 'rows that are not in the full result', bc, detail)
    raise core.HarnessError(fam)

def gc_text(v):
    if isinstance(v, bool): return str(int(v))
    if isinstance(v, float): return repr(v)
    return str(v)

ROOT_TABLE = {'Person': 'Person', 'Student': 'Person', 'Dept': 'Dept', 'Tag': 'Tag'}
def run_delete(node, t):
    """own sessions: delete + commit, dump in a fresh session, restore the data set"""
    from pony.orm import db_session
    db, data, snap = L.get_db(node.ds)
    bulk = t['args'][0]
    n = len(node.R)
    bc = 'empty result' if n == 0 else '-'
    try:
        try:
            with db_session: ret = node.pq.delete(bulk=bulk)
        except Exception: raise
        after = L.dump(db)
    finally:
        L.restore(db, snap)
        if L.dump(db) != snap: raise core.HarnessError('data set not restored after delete')
    if len(node.rn) != 1 or not qx.is_ent(node.rn[0][1]): return ('undecided', 'delete on a non-entity result answered')
    table = ROOT_TABLE[node.rn[0][1]]
    ids = set(r[0][2] for r in node.R)
    exp = sorted(row[0] for row in snap[table] if row[0] not in ids)
    got = sorted(row[0] for row in after[table])
    detail = 'R = %r; %s keys before %r, after %r, returned %r' % (node.R, table, sorted(r[0] for r in snap[table]), got, ret)
    if got != exp:
        return ('viol', 'deleted rows that the query does not select' if set(exp) - set(got) else 'left selected rows', bc, detail)
    for other in ('Person', 'Dept', 'Tag'):
        if other != table and [r[0] for r in after[other]] != [r[0] for r in snap[other]]:
            return ('viol', 'rows of another entity deleted', bc, detail)
    if ret not in (len(ids), len(node.R)): return ('viol', 'wrong return value', bc, detail)
    return ('ok', True)

# ---- refusals that are part of the documented interface (everything else on a base query must be answered) -------
def refusal_allowed(node, op):
    """op: step or terminal dict, applied directly to a base query"""
    form = op['form']
    kind = node.base.kind
    single = len(node.rn) == 1
    ent = single and qx.is_ent(node.rn[0][1])
    if kind == 'aggregate' and (op.get('t') in ('aggregate', 'count', 'group_concat') or op.get('f') == 'cond'): return True
    if kind == 'grouped' and op.get('t') == 'count' and op['args'][0] is not None: return True
    if op.get('f') == 'in' and form == 'y in q[:k]' and node.insrc[1] is not None: return True      # documented: a list parameter must not contain None
    if op.get('t') == 'aggregate':
        if not single or ent: return True
        if op['args'][0] in ('sum', 'avg') and node.rn[0][1] not in qx.NUM: return True
        return False
    if op.get('t') == 'group_concat': return not single
    if op.get('t') == 'delete': return not ent or node.aggregated
    if op.get('f') == 'sub' and form == 'for x in q[a:b]': return True      # documented: a query iterates over an entity or a query
    return False

# ------------------------------------------------------------------------------------------------
# exploration
DERIVED = ('Ef', 'E^id-', 'E^n', 'V.n^', 'T.idn^')      # reachable from E / V.n / T.idn by one filter / order_by step
EXPLAINED = ('automatic DISTINCT dropped', 'counts the first column only')

class Walk(object):
    def __init__(self, sub, maxsteps):
        self.sub, self.maxsteps = sub, maxsteps
        self.nq = 0

def exc_name(e):
    n = type(e).__name__
    return 'TypeError/OperationalError' if n in ('TypeError', 'OperationalError') else n

def make_child(node, st):
    """-> (child | None, verdict) where verdict is ('refused', exc) | ('ok', exact) | ('viol', kind, bc, detail) | ('undecided', why)"""
    from pony.orm import db_session
    with db_session:
        try:
            c = apply_step(node, st)
            fetch_node(c)
        except core.HarnessError: raise
        except Exception as e: return None, ('refused', exc_name(e), str(e)[:200])
        n = len(node.R)
        if st['f'] in ('sub', 'in'):
            start, stop = c.window
            bc = L.bound_class(n, start, stop)
            kind, exact, und = finish_wrap(node, c)
            if und: return c, ('undecided', und)
            if kind is None: return c, ('ok', exact)
            return c, ('viol', kind, bc, 'window [%s:%s] of R = %r; got %r' % (start, stop, node.R, c.R))
        kind, note = L.judge_node(c)
        if kind is None: return c, ('ok', True)
        c.failed = kind
        bc = 'empty result' if n == 0 else '-'
        if note == 'distinct-dropped': kind = 'automatic DISTINCT dropped'; c.dropped = True
        return c, ('viol', kind, bc, 'expected %s of %r, got %r' % ('set' if c.eff_distinct() else 'bag', [r.c for r in c.B], c.R))

def eval_terminal(node, t):
    from pony.orm import db_session
    if t['t'] == 'delete':
        try: return run_delete(node, t)
        except core.HarnessError: raise
        except Exception as e: return ('refused', exc_name(e), str(e)[:200])
    with db_session:
        try: return run_terminal(node, t)
        except core.HarnessError: raise
        except Exception as e: return ('refused', exc_name(e), str(e)[:200])

def skeleton(steps, op):
    fams = [s['f'] for s in steps] + [op.get('f') or op.get('t')]
    return '.'.join(fams)

def chain_text(base, steps, op):
    def one(s): return s['form'] + (repr(tuple(s['args'])) if s.get('args') is not None and s.get('f') in ('sub', 'in') or s.get('t') in ('window', 'random') else '')
    return '%s: %s' % (base.id, ' -> '.join(one(s) for s in steps + [op]))

def judged_root(ds, base):
    """(executed root node, kind | None): the base result cross-checked against the QX reference evaluator"""
    from pony.orm import db_session
    L.get_db(ds)
    with db_session:
        node = root(ds, base)
        fetch_node(node)
    kind, note = L.judge_node(node)
    if kind is not None:
        if note == 'distinct-dropped': kind = 'automatic DISTINCT dropped'; node.dropped = True
        node.failed = kind
    return node, kind

def build(ds, base, steps):
    """the node reached by `steps` from the base (None if Pony refuses a step)"""
    from pony.orm import db_session
    node = judged_root(ds, base)[0]
    for st in steps:
        node, v = make_child(node, st)
        if node is None: return None
    return node

_VMEMO = {}
def verdict_of(ds, base, steps, op):
    key = json.dumps([ds, base.id, steps, op], sort_keys=True)
    v = _VMEMO.get(key, 0)
    if v == 0:
        if len(_VMEMO) > 20000: _VMEMO.clear()
        v = _VMEMO[key] = _verdict_of(ds, base, steps, op)
    return v
def _verdict_of(ds, base, steps, op):
    node = build(ds, base, steps)
    if node is None: return None
    if 'f' in op: return make_child(node, op)[1]
    return eval_terminal(node, op)

def shrink(ds, base, steps, op, kind):
    """delete steps while the same failure kind persists"""
    changed = True
    while changed and steps:
        changed = False
        for i in range(len(steps)):
            cand = steps[:i] + steps[i + 1:]
            v = verdict_of(ds, base, cand, op)
            if v is not None and v[0] == 'viol' and v[1] == kind:
                steps = cand; changed = True
                break
    v = verdict_of(ds, base, steps, op)
    return steps, (v[2] if v is not None and v[0] == 'viol' else None)

def record(w, node, op, v):
    sub = w.sub
    name = op['form']
    if v[0] == 'refused':
        sub.count('refused')
        sub.count('refused_by_exception:' + v[1])
        sub.count('refused_at:' + (op.get('f') or op.get('t')))
        if not node.steps and not refusal_allowed(node, op):
            sig = json.dumps(dict(sk='(base).' + (op.get('f') or op.get('t')), kind='refused with ' + v[1], base=node.base.kind, forms=[name], bound='-'), sort_keys=True)
            sub.violation(sig, dict(ds=node.ds, base=node.base.id, steps=[], op=op), '%s refused: %s %s' % (chain_text(node.base, [], op), v[1], v[2]))
        return
    sub.count('answered')
    if v[0] == 'undecided':
        sub.count('undecided'); sub.count('undecided:' + v[1]); return
    if v[0] == 'ok':
        sub.count('agreed')
        if node.steps and len(node.R) > 1 and len(sub.samples) < 1 and op.get('t') == 'window':
            sub.sample(dict(dataset=node.ds, base_query=node.base.q.source('gen'), chain=chain_text(node.base, node.steps, op), full_result_of_predecessor=node.R, verdict='agrees'))
        if not v[1]: sub.count('agreed_up_to_ties_or_unspecified_order')
        if len(node.R): sub.count('nontrivial')
        return
    sub.count('disagreed')
    kind = v[1]
    if kind in EXPLAINED:
        # the failure is identified by the alternative semantics that explain the answer, whatever came before
        steps, bc = list(node.steps), v[2]
        sig = json.dumps(dict(sk='(any).' + (op.get('f') or op.get('t')), kind=kind, base=node.base.kind, forms=[name], bound=bc), sort_keys=True)
    else:
        steps = list(node.steps)
        nosub = [s for s in steps if s['f'] != 'sub']
        if len(nosub) != len(steps):
            # does the limited subquery matter? one probe instead of a full shrink: every other step is irrelevant for the shape
            v2 = verdict_of(node.ds, node.base, nosub, op)
            if v2 is not None and v2[0] == 'viol' and v2[1] == kind: steps, bc = shrink(node.ds, node.base, nosub, op, kind)
            else: bc = v[2]
        else: steps, bc = shrink(node.ds, node.base, steps, op, kind)
        if bc is None: steps, bc = list(node.steps), v[2]
        forms = [s['form'] for s in steps] + [name]
        sk = '(base).' + skeleton(steps, op) if not steps else skeleton(steps, op)
        subs = [s for s in steps if s['f'] == 'sub']
        if subs and len(steps) > 1:
            # one shape: a query that iterates over a limited subquery, whatever else precedes the failing method
            sk = 'sub...' + (op.get('f') or op.get('t'))
            forms = [subs[0]['form'], '...', name]
        sig = json.dumps(dict(sk=sk, kind=kind, base=node.base.kind, forms=forms, bound=bc), sort_keys=True)
    case = dict(ds=node.ds, base=node.base.id, steps=steps, op=op, kind=kind)
    sub.violation(sig, case, '%s [%s]: %s; %s' % (chain_text(node.base, steps, op), node.ds, kind, v[3]))

def explore(w, node, depth):
    """node is executed and judged; run its terminals, then its children"""
    sub = w.sub
    for t in terminals_for(node, depth + 1):
        sub.count('evaluations'); sub.count('terminal:' + t['t'])
        record(w, node, t, eval_terminal(node, t))
    if depth >= w.maxsteps:
        if depth == 1 and node.steps[-1]['f'] in RECORDED: pairs(w, node)
        return
    if node.steps and node.steps[-1]['f'] == 'in': return      # below a membership query only the terminals (it is a plain entity query)
    for st in steps_for(node, depth + 1):
        sub.count('evaluations'); sub.count('step:' + st['f'])
        c, v = make_child(node, st)
        record(w, node, st, v)
        if c is not None: explore(w, c, depth + 1)

RECORDED = ('distinct', 'unorder', 'cond', 'order', 'aggcond', 'aggorder')      # steps Pony records in the query and replays
def pairs(w, node):
    """chains of length 3 that are explored in EVERY tier: node is the result of one recorded step s1; every recorded
    step s2 such that s1 or s2 contains an aggregate over a collection is applied to it, judged, and followed by the
    reduced method set terminals_for(level=4)"""
    sub = w.sub
    first_agg = bool(node.steps[-1].get('agg'))
    for st in steps_for(node, 2):
        if st['f'] not in RECORDED or not (first_agg or st.get('agg')): continue
        sub.count('evaluations'); sub.count('step:' + st['f']); sub.count('replayed pairs')
        c, v = make_child(node, st)
        record(w, node, st, v)
        if c is None: continue
        for t in terminals_for(c, 4):
            sub.count('evaluations'); sub.count('terminal:' + t['t'])
            record(w, c, t, eval_terminal(c, t))

def step_class(st):
    if st['f'] in ('aggcond', 'aggorder'): return st['f']
    if st['f'] == 'cond': return 'kw' if ('**kw' in st['form'] or 'attr=None' in st['form']) else 'plain'
    return None
def triples_root(w, ds, base):
    """thorough tier: chains of three recorded steps of pairwise different classes out of {keyword filter, plain
    condition, condition with an aggregate, sort key with an aggregate} - every order, every form of each class -
    each judged step by step; the last node is followed by the reduced method set terminals_for(level=4)"""
    sub = w.sub
    def rec(node, used, depth):
        for st in steps_for(node, 2):
            k = step_class(st)
            if k is None or k in used: continue
            if depth == 3 and not (st.get('agg') or any(u.startswith('agg') for u in used)): continue
            c, v = make_child(node, st)
            if depth == 3:
                sub.count('evaluations'); sub.count('step:' + st['f']); sub.count('replayed triples')
                record(w, node, st, v)
            if c is None: continue
            if depth < 3: rec(c, used + [k], depth + 1)
            else:
                for t in terminals_for(c, 4):
                    sub.count('evaluations'); sub.count('terminal:' + t['t'])
                    record(w, c, t, eval_terminal(c, t))
    node = judged_root(ds, base)[0]
    if L.agg_target(node) is not None: rec(node, [], 1)

def explore_root(w, ds, base, part, parts):
    node, kind = judged_root(ds, base)
    if part == 0:
        w.sub.count('evaluations'); w.sub.count('base queries')
        # cross-check of the base result against the QX reference evaluator
        if kind is not None:
            op = dict(t='base', form='q[:]')
            sig = json.dumps(dict(sk='(any).order' if kind in EXPLAINED else '(base)', kind=kind, base=base.kind, forms=['ordered base query' if base.q.order else 'base query'], bound='empty result' if not node.R else '-'), sort_keys=True)
            w.sub.violation(sig, dict(ds=ds, base=base.id, steps=[], op=op, kind=kind), '%s [%s]: %s; reference %r, got %r' % (base.id, ds, kind, [r.c for r in node.B], node.R))
            w.sub.count('disagreed')
        else:
            w.sub.count('agreed')
            if node.R: w.sub.count('nontrivial')
        for t in terminals_for(node):
            w.sub.count('evaluations'); w.sub.count('terminal:' + t['t'])
            record(w, node, t, eval_terminal(node, t))
    if w.maxsteps < 1: return
    for i, st in enumerate(steps_for(node)):
        if i % parts != part: continue
        w.sub.count('evaluations'); w.sub.count('step:' + st['f'])
        c, v = make_child(node, st)
        record(w, node, st, v)
        if c is not None: explore(w, c, 1)

def work(task):
    ds, bid, part, parts, maxsteps = task
    sub = core.Sub()
    w = Walk(sub, maxsteps)
    base = L.base_by_id(bid)
    if part == 'triples': triples_root(w, ds, base)
    else: explore_root(w, ds, base, part, parts)
    db = L.get_db(ds)[0]
    qx.clear_caches(db)
    return sub.dump()

# ------------------------------------------------------------------------------------------------
def merge_signatures(ctx):
    """collapse the per-case signatures (skeleton, kind, base kind, forms, bound class) into one signature per
    (skeleton, kind) listing the sets of base kinds, forms and bound classes it fails on"""
    groups = {}
    for sig, e in ctx.found.items():
        d = json.loads(sig)
        g = groups.setdefault((d['sk'], d['kind']), dict(bases=set(), forms=set(), bounds=set(), n=0, first=None))
        g['bases'].add(d['base']); g['forms'].add(' -> '.join(d['forms'])); g['bounds'].add(d['bound']); g['n'] += e['n']
        if g['first'] is None or sig < g['first'][0]: g['first'] = (sig, e)
    found = {}
    for (sk, kind), g in groups.items():
        s = '%s: %s {bases: %s} {forms: %s} {bounds: %s}' % (sk, kind, ', '.join(sorted(g['bases'])), ' | '.join(sorted(g['forms'])), ', '.join(sorted(g['bounds'])))
        e = g['first'][1]
        found[s] = dict(case=e['case'], message=e['message'], n=g['n'])
    ctx.found = found

def run(ctx):
    tasks = []
    for ds in L.DATASETS:
        for b in L.bases():
            # chains of length <= 2 on every data set and base; thorough adds the chains of length 3 on the data sets
            # with n <= 3 for the bases that are not a plain order_by / filter away from another base
            deep = not ctx.quick and ds != 't4' and b.id not in DERIVED
            if ctx.quick and ds == 't3': continue
            parts = (12 if ds == 't3' else 3) if deep else (2 if ds == 't4' else 1)
            for part in range(parts): tasks.append((ds, b.id, part, parts, 2 if deep else 1))
            if not ctx.quick: tasks.append((ds, b.id, 'triples', 1, 3))
    maxsteps = 1 if ctx.quick else 2
    for d in ctx.pmap(work, ctx.shuffled(tasks)): core.absorb(ctx, d)
    merge_signatures(ctx)
    c = ctx.counters
    ev = c.get('evaluations', 0)
    ctx.guard('evaluations', ev, 50000)
    ctx.guard('percent of evaluations answered', int(100.0 * c.get('answered', 0) / max(1, ev)), 50)
    ctx.guard('answers agreeing on a non-empty result', c.get('nontrivial', 0), 20000)
    for fam in ('window', 'first', 'get', 'exists', 'count', 'aggregate', 'group_concat', 'random', 'delete', 'len(q)', 'list(q)'):
        ctx.guard('terminal family executed: ' + fam, c.get('terminal:' + fam, 0), 100)
    for fam in ('distinct', 'unorder', 'cond', 'order', 'sub', 'in', 'aggcond', 'aggorder'):
        ctx.guard('step family executed: ' + fam, c.get('step:' + fam, 0), 50)
    if ctx.quick or 't4' in L.DATASETS: ctx.guard('pairs of recorded steps with an aggregate over a collection', c.get('replayed pairs', 0), 1000)
    if not ctx.quick: ctx.guard('triples of recorded steps with an aggregate over a collection', c.get('replayed triples', 0), 1000)
    ctx.cov['chain_length_max'] = maxsteps + 1
    ctx.cov['base_queries'] = [b.id for b in L.bases()]
    ctx.cov['datasets'] = [d for d in L.DATASETS if not (ctx.quick and d == 't3')]
    ctx.cov['length_3_chains'] = 'none' if ctx.quick else ('data sets t3, t2, t1, t0 (n <= 3) x bases other than %s; second step: no page / q[a:b] subquery forms, membership steps only after a non-window step, nothing below a membership step; third method: window forms q[a:b] and limit(l, o) only' % ', '.join(DERIVED))
    ctx.assume('SQLite 3.40 in-memory database; rows reach it through Pony itself')
    ctx.assume('positions are demanded exactly only where the sort keys order the result totally (None keys are unordered); otherwise any window consistent with the keys is accepted')
    ctx.assume('documented conventions: count() is DISTINCT for non-entity rows, sum/avg/group_concat work on all rows unless distinct is requested, sum of nothing is 0, other aggregates of nothing are None; whether COUNT skips None values of a single column is not fixed (both accepted)')
    ctx.assume('first() on an unordered query orders by the result columns (documented SQL); a query over a limited subquery has no order of its own')
    return dict(evaluations=ev, distinct_nontrivial=c.get('nontrivial', 0),
                rule='one evaluation = one method applied to one node of the chain tree (data set x base query x chain of query-returning '
                     'steps with concrete bounds); every chain of length <= %d is enumerated once; distinct_nontrivial counts the evaluations '
                     'Pony answered, the oracle decided and whose predecessor result is non-empty' % (maxsteps + 1))

def replay(ctx, case):
    base = L.base_by_id(case['base'])
    v = verdict_of(case['ds'], base, case['steps'], case['op']) if case['op'].get('t') != 'base' else None
    if case['op'].get('t') == 'base':
        node, kind = judged_root(case['ds'], base)
        print('base %s on %s: reference %r, got %r -> %s' % (base.id, case['ds'], [r.c for r in node.B], node.R, kind))
        return kind is None
    print('chain  :', chain_text(base, case['steps'], case['op']), 'on', case['ds'])
    print('verdict:', v)
    return v is None or v[0] != 'viol'
