"""C01 Declarative queries return what Python evaluation of the same expression returns.

Bounded-exhaustive enumeration (engine vf.engines.qx): every expression of the typed grammar of
exact depth 1 (quick) and additionally of exact depth 2 with operand lists pruned by type (thorough)
is placed in every position - filter, single projection, projection tuple (p.id, E), order_by
(ascending lambda / descending string), nested subquery (membership, correlated count, nested
aggregate) and aggregate argument (grouped and ungrouped) - and executed through the front ends
select("text"), select(generator compiled from the same text) and Entity.select(lambda) on an
in-memory SQLite database holding the pairwise product of boundary values. The reference answer
comes from the typed three-valued evaluator working on the expression tree over a plain-Python
mirror of the data; results are compared as set / bag / sequence-up-to-ties per documented form.
Any exception from Pony = "refused" (allowed), counted per production.

Hand-shaped forms beside the grammar (joins, DISTINCT rules, grouping; extra_queries) and two families on
the separate 'slots' schema (Slot with the composite key (room, hour), one-to-many Slot.bookings):
  composite-pk   every non-empty selection of key attributes x non-key attributes as plain / tuple projection
                 (also filtered, ordered - multiplicity not judged under order_by - and under Query.count()),
                 entity results through all three front ends, two-variable joins: set or bag by the documented
                 rule (DISTINCT unless the row holds the FULL primary key of every iterated entity);
  JOIN hint      sum/min/max/avg/count over s.bookings.qty|w|note and count(s.bookings), plain and under JOIN(...)
                 (around the aggregate and around the comparison), in projection, filters (== k, > k, not,
                 is None) and order_by, over slots with an EMPTY collection, an all-None one, a zero sum:
                 both forms against the reference and against each other.

Attribution: a failing query is reduced to its minimal failing sub-expression by re-running the
sub-expressions as projections select((p.id, sub) for p in Person) row by row; the signature is the
operator skeleton of that minimal sub-expression plus the value classes of its leaves on the
failing row, e.g. `int // int [neg,pos]`. Failures that do not reproduce as a projection are
position-specific and are shrunk towards a leaf inside their position.
"""
import os, sys, time, zlib
from vf import core
from vf.engines import qx
from vf.engines.qx import (X, var, attr, const, param, call, src, Query, compare, skeleton, INT, FLOAT, DEC, STR,
                           BOOL, DATE, TD, COND, NUM, ms, is_ms, is_leaf)

LEVEL = 'exploration'
P = var('p', 'Person')
PID = attr(P, 'id')
FILTERABLE = (COND, INT, FLOAT, DEC, STR, BOOL, DATE, 'Dept')
ORDERABLE = (INT, FLOAT, DEC, STR, DATE, BOOL)
PERSON = X('ent', ms('Person'), (), 'Person')

def placements(E, deep=False, all_aggs=False):
    """[(position, Query, frontends)] for expression E over the query variable p"""
    t = E.t
    out = []
    if is_ms(t): return out
    one = [('p', 'Person')]
    if deep:
        if not any(n.op in ('and', 'or') and any(c.t != COND for c in n.a) for n in qx.walk(E)):
            out.append(('projT', Query(one, (PID, E)), ('str',)))
        if t in FILTERABLE:
            boolean = E.op in ('and', 'or', 'not', 'ifexp') or any(c.op in ('and', 'or', 'not', 'ifexp') for c in E.a)
            out.append(('filter', Query(one, P, [E]), ('str', 'lam') if boolean else ('str',)))
        return out
    ext = qx.is_external(E)
    # `a and b` / `a or b` over plain values yields an operand in Python but a truth value in SQL: such
    # expressions are judged in truth-test positions only (filter, subquery filter)
    truth_only = any(n.op in ('and', 'or') and any(c.t != COND for c in n.a) for n in qx.walk(E))
    if truth_only:
        out.append(('filter', Query(one, P, [E]), ('str', 'gen', 'lam')))
        sub1 = X('gen', ms(INT), (PID, PERSON, E), 'p')
        out.append(('subq', Query([('o', 'Person')], var('o', 'Person'), [call('in_ms', COND, attr(var('o', 'Person'), 'id'), sub1)]), ('str', 'gen')))
        return out
    out.append(('projT', Query(one, (PID, E)), ('str', 'gen')))
    if not ext: out.append(('proj1', Query(one, E), ('str',)))
    if t in FILTERABLE: out.append(('filter', Query(one, P, [E]), ('str', 'gen', 'lam')))
    if t in ORDERABLE and not ext:
        out.append(('order', Query(one, P, order=[(E, False)], order_style='lambda'), ('str',)))
        out.append(('order', Query(one, P, order=[(E, True)], order_style='str'), ('str',)))
    o = var('o', 'Person'); d = var('d', 'Dept')
    dpers = attr(d, 'persons')
    if t in FILTERABLE:
        sub1 = X('gen', ms(INT), (PID, PERSON, E), 'p')
        out.append(('subq', Query([('o', 'Person')], o, [call('in_ms', COND, attr(o, 'id'), sub1)]), ('str', 'gen')))
        sub2 = X('gen', ms('Person'), (P, dpers, E), 'p')
        out.append(('subq', Query([('d', 'Dept')], (attr(d, 'id'), call('count', INT, sub2))), ('str',)))
    if ext: return out
    pb = attr(P, 'b')
    if t in NUM: aggs = ('sum', 'min', 'max', 'avg', 'count')
    elif t in (STR, DATE): aggs = ('min', 'max', 'count')
    else: aggs = ()
    if not (is_leaf(E) or all_aggs): aggs = aggs[:1]      # the full aggregate set runs on depth-0 operands
    for i, a in enumerate(aggs):
        rt = FLOAT if a == 'avg' else (INT if a == 'count' else t)
        fes = ('str', 'gen') if len(aggs) > 1 else ('str',)
        out.append(('aggarg', Query(one, (pb, call('q' + a, rt, E))), fes))
        sub = X('gen', ms(t), (E, dpers), 'p')
        out.append(('aggarg', Query([('d', 'Dept')], (attr(d, 'id'), call(a, rt, sub))), fes))
    if len(aggs) > 1:
        a = aggs[0]
        out.append(('aggarg', Query(one, call('q' + a, t, E)), ('str', 'gen')))
        if t in NUM: out.append(('aggarg', Query(one, pb, [call('gt', COND, call('qsum', t, E), const(0))]), ('str', 'gen')))
    return out

# ------------------------------------------------------------------------------------------------
_STATE = {}
def state():
    key = os.getpid()
    st = _STATE.get(key)
    if st is None:
        db, data = qx.get_db('pairs')
        st = _STATE[key] = dict(db=db, data=data, ev=qx.Evaluator(data), n=0, proj={}, pids={o.id: o for o in data.persons})
    return st

def run_query(st, q, fe):
    st['n'] += 1
    if st['n'] % 3000 == 0:
        qx.clear_caches(st['db'])
        if len(st['proj']) > 20000: st['proj'].clear()
    return q.run(st['db'], fe)

def proj_status(st, E):
    """E as projection (p.id, E) through the string front end: {'refused'} or dict rid -> bool ok"""
    k = src(E)
    r = st['proj'].get(k)
    if r is not None: return r
    q = Query([('p', 'Person')], (PID, E))
    try: got = run_query(st, q, 'str')
    except Exception: r = 'refused'
    else:
        exp = q.expected(st['data'])
        if exp.undecided: r = 'refused'
        else:
            r = {o.id: True for o in st['data'].persons}
            for m in compare(exp, got):
                rid = row_id(m)
                if rid is not None: r[rid] = False
                else: r['?'] = False
    st['proj'][k] = r
    return r

def row_id(m):
    if m.row is not None and m.row.env is not None:
        o = m.row.env.vars.get('p') or m.row.env.vars.get('o')
        if o is not None: return o.id
    if m.got:
        g = m.got[0]
        if isinstance(g, qx.EntRef): return g[1] if g[0] in ('Person', 'Student') else None
        if isinstance(g, int) and not isinstance(g, bool): return g
    return None

def scalar_children(E):
    if E.op == 'gen': return []
    return [c for c in E.a if not is_ms(c.t) and c.op not in ('var', 'ent') and c.t not in ('class',)]

def blame(st, E, rid):
    """minimal sub-expressions of E that fail on row rid when run as projection; [] if none"""
    for c in scalar_children(E):
        b = blame(st, c, rid)
        if b: return b
    r = proj_status(st, E)
    if r != 'refused' and r.get(rid) is False: return [E]
    return []

def classes(st, E, rid):
    o = st['pids'].get(rid)
    if o is None: return '?'
    return qx.operand_classes(st['ev'], E, qx.Env({'p': o}))

LAZY_OPS = {'or': 'or', 'and': 'and', 'ifexp': 'if-else'}
def expr_sig(st, M, rid):
    o = st['pids'].get(rid)
    if M.op in LAZY_OPS and o is not None and qx.dead_navigation(st['ev'], M, qx.Env({'p': o})):
        # the row has a Python answer because the operand that navigates through a None reference is
        # never evaluated; Pony joins the referenced table with an inner join and loses the row
        return '%s: operand navigating through a None reference is not evaluated in Python, row lost by the inner join' % LAZY_OPS[M.op]
    return '%s [%s]' % (qx.op_skeleton(M), classes(st, M, rid))

def still_fails(st, pos, E, fe, kind, template):
    """does the query built from template with E' in place of E still disagree (same kind)?"""
    q = template(E)
    if q is None: return False
    try: got = run_query(st, q, fe)
    except Exception: return False
    exp = q.expected(st['data'])
    if exp.undecided: return False
    return any(m.kind == kind for m in compare(exp, got, q.order))

def shrink_in_position(st, pos, E, fe, kind, template):
    """smallest expression of the same type that still fails in this position"""
    t = E.t
    leaf = qx.grammar_leaves(P).get(t)
    if leaf and src(leaf[0]) != src(E) and still_fails(st, pos, leaf[0], fe, kind, template): return leaf[0]
    for c in scalar_children(E):
        if c.t == t and still_fails(st, pos, c, fe, kind, template):
            return shrink_in_position(st, pos, c, fe, kind, template)
    return E

def attribute(sub, st, pos, q, fe, E, mm, template):
    """turn the mismatches of one failing query into signatures"""
    case = dict(query=q.to_json(), frontend=fe, position=pos, expr=qx.to_json(E), source=q.source(fe))
    sigs = {}
    if pos == 'subq' and E.t in FILTERABLE:
        # E sits in the filter of a nested generator: if it already fails as the filter of a plain
        # query (same front end), that is the shape to report
        fq = Query([('p', 'Person')], P, [E])
        try:
            fgot = run_query(st, fq, fe)
            fexp = fq.expected(st['data'])
            fmm = [] if fexp.undecided else compare(fexp, fgot)
        except Exception: fmm = []
        if fmm: return attribute(sub, st, 'filter', fq, fe, E, fmm, make_template('filter', fq, E))
    rows = [(m, row_id(m)) for m in mm]
    perrow = pos in ('projT', 'filter', 'order') or (pos == 'subq' and q.fors[0][0] == 'o')
    todo = []
    if perrow and all(rid is not None for m, rid in rows) and all(m.kind in ('value', 'missing', 'extra') for m, _ in rows):
        seen = set()
        for m, rid in rows:
            if rid in seen: continue
            seen.add(rid)
            b = blame(st, E, rid)
            if b:
                for M in b: sigs.setdefault(expr_sig(st, M, rid), (m, rid))
            else: todo.append((m, rid))
    else:
        # not attributable row by row: explained by the expression failing as a projection at all?
        r = proj_status(st, E)
        bad = [rid for rid, ok in r.items() if ok is False and rid != '?'] if r != 'refused' else []
        for rid in bad[:6]:
            for M in blame(st, E, rid): sigs.setdefault(expr_sig(st, M, rid), (mm[0], rid))
        if not sigs: todo = [(mm[0], row_id(mm[0]))]
    if todo:
        # position-specific (or front-end-specific) failure
        m, rid = todo[0]
        kinds = sorted(set(m.kind for m, _ in todo))
        if fe != 'str':
            # same query through the string front end: agreeing or refusing there makes it a front-end defect
            try: ok_str = not compare(q.expected(st['data']), run_query(st, q, 'str'), q.order)
            except Exception: ok_str = True
        else: ok_str = False
        M = shrink_in_position(st, pos, E, fe, kinds[0], template) if template else E
        if ok_str:
            sig = 'frontend %s only: %s: %s' % ('gen/lam' if fe in ('gen', 'lam') else fe, 'filter' if pos in ('filter', 'subq') else 'projection', qx.kind_skeleton(M))
        else:
            sig = '%s: %s: %s' % (pos, '+'.join(kinds), qx.op_skeleton(M))
            if perrow and rid is not None:
                for m_, r_ in todo:
                    if r_ is None: continue
                    o = st['pids'].get(r_)
                    if M.op in LAZY_OPS and o is not None and qx.dead_navigation(st['ev'], M, qx.Env({'p': o})): s_ = expr_sig(st, M, r_)
                    else: s_ = '%s: %s: %s [%s]' % (pos, m_.kind, qx.op_skeleton(M), classes(st, M, r_))
                    sigs.setdefault(s_, (m_, r_))
                sig = None
        if sig: sigs[sig] = (m, rid)
    for sig, (m, rid) in sorted(sigs.items()):
        c = dict(case, mismatch=repr(m), row=rid)
        sub.violation(sig, c, '%s  [%s] -> %r' % (q.source(fe), pos, m))

def make_template(pos, q, E):
    """function E' -> the same query with E' in place of E (for position shrinking)"""
    key = src(E)
    def rep(x, new):
        if src(x) == key and x.t == E.t: return new
        if not x.a: return x
        return X(x.op, x.t, [rep(c, new) for c in x.a], x.v)
    def template(new):
        proj = tuple(rep(p_, new) for p_ in q.proj) if isinstance(q.proj, tuple) else rep(q.proj, new)
        return Query([(v, rep(s, new)) for v, s in q.fors], proj, [rep(c, new) for c in q.conds],
                     [(rep(k, new), d) for k, d in q.order], q.order_style, q.dataset)
    return template

def check_expr(sub, st, E, deep, hashes):
    prods = qx.prods_in(E)
    nok = nref = 0
    ev = qx.Evaluator(st['data'])
    ev.memo_ids = (id(E),)
    for pos, q, fes in placements(E, deep):
        exp = None
        for fe in fes:
            sub.count('queries')
            try: got = run_query(st, q, fe)
            except Exception as e:
                nref += 1
                sub.count('refused')
                # a failing SQLite UDF surfaces as TypeError or as OperationalError depending on Pony's thread-local
                # exception state (order dependent): one bucket keeps the counters seed-invariant
                en = type(e).__name__
                sub.count('refused_by_exception:' + ('TypeError/OperationalError' if en in ('TypeError', 'OperationalError') else en))
                sub.count('refused_at:' + pos)
                continue
            nok += 1
            sub.count('answered')
            sub.count('answered_at:%s/%s' % (pos, fe))
            if exp is None: exp = q.expected(st['data'], ev)
            if exp.undecided:
                sub.count('answered_but_reference_undecided'); continue
            if exp.rows: hashes.add(zlib.crc32((fe + q.source(fe)).encode()) & 0xffffffff | (len(q.source(fe)) << 32))
            sub.count('row_comparisons', len(exp.rows))
            mm = compare(exp, got, q.order)
            if not mm:
                sub.count('agreed'); continue
            sub.count('disagreed')
            attribute(sub, st, pos, q, fe, E, mm, make_template(pos, q, E))
            if len(sub.samples) < 1: pass
    for p_ in prods:
        if nok: sub.count('ok:' + p_, nok)
        if nref: sub.count('refusals:' + p_, nref)
        if not nok and not nref: sub.count('unplaced:' + p_)
    return nok

_EXPRS = {}
def work(task):
    depth, idxs = task
    sub = core.Sub()
    hashes = set()
    if depth == 'slots':
        st = state_slots(); st.setdefault('n', 0)
        forms = _EXPRS['slots']
        for i in idxs: check_slot_form(sub, st, forms[i], hashes)
        d = sub.dump()
        d['hashes'] = sorted(hashes)
        return d
    st = state()
    exprs = _EXPRS[depth]
    for i in idxs:
        E = exprs[i]
        check_expr(sub, st, E, depth == 2, hashes)
        if len(sub.samples) < 2 and i % 97 == 0:
            pl = placements(E, depth == 2)
            if pl: sub.sample(dict(depth=depth, expression=src(E), skeleton=skeleton(E), queries=[q.source(f) for _, q, fs in pl for f in fs][:6]))
    d = sub.dump()
    d['hashes'] = sorted(hashes)
    return d

def extra_queries():
    """hand-shaped multi-variable forms (joins, DISTINCT rules, left-join conventions) that are not
    expression placements; each is (name, Query, frontends)"""
    p, d, t = P, var('d', 'Dept'), var('t', 'Tag')
    out = []
    two = [('d', 'Dept'), ('p', attr(d, 'persons'))]
    out.append(('join o2m entity', Query(two, p), ('str', 'gen')))
    out.append(('join o2m parent (distinct)', Query(two, d), ('str', 'gen')))
    out.append(('join o2m pair', Query(two, (attr(d, 'id'), PID)), ('str', 'gen')))
    out.append(('join o2m value (distinct)', Query(two, (attr(d, 'name'), attr(p, 'n'))), ('str', 'gen')))
    out.append(('join o2m filter', Query(two, (attr(d, 'id'), PID), [call('gt', COND, attr(p, 'n'), attr(d, 'budget'))]), ('str', 'gen')))
    m2m = [('p', 'Person'), ('t', attr(p, 'tags'))]
    out.append(('join m2m pair', Query(m2m, (PID, attr(t, 'id'))), ('str', 'gen')))
    out.append(('join m2m tag (distinct)', Query(m2m, t), ('str', 'gen')))
    out.append(('join m2m person (distinct)', Query(m2m, p), ('str', 'gen')))
    out.append(('join m2m label (distinct)', Query(m2m, attr(t, 'label'), [call('is_not_none', COND, attr(p, 'n'))]), ('str', 'gen')))
    out.append(('join m2m filter both', Query(m2m, (PID, attr(t, 'id')), [call('gt', COND, attr(t, 'w'), attr(p, 'n'))]), ('str', 'gen')))
    cross = [('p', 'Person'), ('d', 'Dept')]
    out.append(('cross join eq', Query(cross, (PID, attr(d, 'id')), [call('eq', COND, attr(p, 'dept'), d)]), ('str', 'gen')))
    out.append(('cross join value', Query(cross, (PID, attr(d, 'id')), [call('eq', COND, attr(p, 'n'), attr(d, 'budget'))]), ('str', 'gen')))
    out.append(('cross join distinct', Query(cross, attr(d, 'name'), [call('eq', COND, attr(p, 'dept'), d)]), ('str', 'gen')))
    for a in ('n', 'm', 's', 'b', 'f', 'd', 'dt', 'dept'):
        out.append(('group count by ' + a, Query([('p', 'Person')], (attr(p, a), call('qcount_all', INT))), ('str', 'gen')))
        out.append(('group count(p) by ' + a, Query([('p', 'Person')], (attr(p, a), call('qcount', INT, p))), ('str',)))
        out.append(('pair projection ' + a, Query([('p', 'Person')], (attr(p, a), attr(p, 'm'))), ('str', 'gen')))
    st = [('p', 'Student')]
    sp = var('p', 'Student')
    out.append(('subclass', Query(st, sp), ('str', 'gen')))
    out.append(('subclass attr', Query(st, (attr(sp, 'id'), attr(sp, 'grade'), attr(sp, 'n'))), ('str', 'gen')))
    out.append(('subclass filter', Query(st, sp, [call('gt', COND, attr(sp, 'grade'), attr(sp, 'n'))]), ('str', 'gen', 'lam')))
    out.append(('having', Query([('d', 'Dept')], d, [call('gt', COND, call('count', INT, attr(d, 'persons')), const(3))]), ('str', 'gen', 'lam')))
    out.append(('having sum', Query([('d', 'Dept')], (attr(d, 'id'), call('sum', INT, attr(attr(d, 'persons'), 'n'))),
                                  [call('gt', COND, call('sum', INT, attr(attr(d, 'persons'), 'n')), const(0))]), ('str', 'gen')))
    return out

# ---- 'slots' schema: composite primary key, JOIN hint ---------------------------------------------------
S = var('s', 'Slot')
def state_slots():
    key = ('slots', os.getpid())
    st = _STATE.get(key)
    if st is None:
        db, data = qx.get_db('slots')
        st = _STATE[key] = dict(db=db, data=data)
    return st

def composite_pk_forms():
    """[(position, shape, Query, frontends, opts)]"""
    one = [('s', 'Slot')]
    col = {n: attr(S, n) for n in ('room', 'hour', 'label', 'cap')}
    Q = lambda *a, **kw: Query(*a, dataset='slots', **kw)
    cond = call('lt', COND, col['hour'], const(11))
    out = []
    keysets = [(), ('room',), ('hour',), ('room', 'hour'), ('hour', 'room')]
    for ks in keysets:
        for ns in [(), ('label',), ('cap',), ('label', 'cap')]:
            names = ks + ns
            if not names: continue
            orders = [names] + ([ns + ks] if ks == ('room',) and ns else [])      # the place in the tuple must not matter
            shape = ('full key' if len(ks) == 2 else 'part of the key' if ks else 'no key attribute') + (' + non-key' if ns and ks else '')
            for nm in orders:
                cols = tuple(col[n] for n in nm)
                out.append(('tuple projection', shape, Q(one, cols), ('str', 'gen'), {}))
                out.append(('tuple projection, filtered', shape, Q(one, cols, [cond]), ('str', 'gen'), {}))
                out.append(('tuple projection, ordered', shape, Q(one, cols, order=[(cols[0], False)]), ('str',), dict(ordered=(0, False))))
                out.append(('tuple projection, ordered', shape, Q(one, cols, order=[(cols[-1], True)], order_style='str'), ('str', 'gen'), dict(ordered=(len(cols) - 1, True))))
                if len(cols) == 1:
                    out.append(('plain projection', shape, Q(one, cols[0]), ('str', 'gen'), {}))
                    out.append(('plain projection, filtered', shape, Q(one, cols[0], [cond]), ('str', 'gen'), {}))
                    sh = shape if nm != ('cap',) else 'nullable non-key attribute'
                    out.append(('count()', sh, Q(one, cols[0], post='count'), ('str', 'gen'), {}))
                    out.append(('count()', sh, Q(one, cols[0], [cond], post='count'), ('str', 'gen'), {}))
    out.append(('entity', 'entity', Q(one, S), ('str', 'gen'), {}))
    out.append(('entity', 'entity', Q(one, S, [cond]), ('str', 'gen', 'lam'), {}))
    out.append(('count()', 'entity', Q(one, S, post='count'), ('str', 'gen'), {}))
    out.append(('count()', 'entity', Q(one, S, [cond], post='count'), ('str', 'gen', 'lam'), {}))
    b = var('b', 'Booking')
    two = [('s', 'Slot'), ('b', attr(S, 'bookings'))]
    for shape, cols in (('part of the key + full key of the joined entity', (col['room'], attr(b, 'id'))),
                        ('part of the key + non-key of the joined entity', (col['room'], attr(b, 'w'))),
                        ('full key + full key of the joined entity', (col['room'], col['hour'], attr(b, 'id'))),
                        ('full key + non-key of the joined entity', (col['room'], col['hour'], attr(b, 'w'))),
                        ('joined entity + part of the key', (b, col['hour'])),
                        ('entity + non-key of the joined entity', (S, attr(b, 'w')))):
        out.append(('join', shape, Q(two, cols), ('str', 'gen'), {}))
    bk = [('b', 'Booking')]
    bslot = attr(b, 'slot')
    for shape, proj in (('part of the referenced key', attr(bslot, 'room')),
                        ('own key + part of the referenced key', (attr(b, 'id'), attr(bslot, 'room'))),
                        ('referenced key in full', (attr(bslot, 'room'), attr(bslot, 'hour'))),
                        ('referenced entity', bslot),
                        ('own key + referenced entity', (attr(b, 'id'), bslot))):
        out.append(('reference', shape, Q(bk, proj), ('str', 'gen'), {}))
    return out

def join_hint_forms():
    """[(position, aggregate name, plain Query, hinted Query, frontends)]"""
    one = [('s', 'Slot')]
    Q = lambda *a, **kw: Query(*a, dataset='slots', **kw)
    room, hour, B = attr(S, 'room'), attr(S, 'hour'), attr(S, 'bookings')
    aggs = []
    for c in ('qty', 'w'):
        for a in ('sum', 'min', 'max', 'avg', 'count'):
            aggs.append(('%s(int%s)' % (a, ' nullable' if c == 'qty' else ''), call(a, FLOAT if a == 'avg' else INT, attr(B, c)), const(0), const(1)))
    aggs.append(('count(entity)', call('count', INT, B), const(0), const(1)))
    for a in ('min', 'max', 'count'):
        aggs.append(('%s(str nullable)' % a, call(a, INT if a == 'count' else STR, attr(B, 'note')), const(0) if a == 'count' else const('y'), const(1) if a == 'count' else const('a')))
    ident = lambda x: x
    hint = lambda x: call('join_hint', x.t, x)
    out = []
    for name, A, k0, k1 in aggs:
        def forms(J, inner):
            f = [('projection', Q(one, (room, hour, J(A))), ('str', 'gen')),
                 ('filter == k', Q(one, S, [J(call('eq', COND, A, k0))] if inner else [call('eq', COND, J(A), k0)]), ('str', 'gen', 'lam')),
                 ('filter > k', Q(one, S, [J(call('gt', COND, A, k1))] if inner else [call('gt', COND, J(A), k1)]), ('str', 'gen', 'lam')),
                 ('filter not', Q(one, S, [J(call('not', COND, A))] if inner else [call('not', COND, J(A))]), ('str', 'gen', 'lam')),
                 ('filter is None', Q(one, S, [J(call('is_none', COND, A))] if inner else [call('is_none', COND, J(A))]), ('str', 'gen', 'lam'))]
            if not inner:
                f += [('order_by', Q(one, S, order=[(J(A), False)]), ('str', 'gen')),
                      ('order_by', Q(one, S, order=[(J(A), True)], order_style='str'), ('str',))]
            return f
        plain = forms(ident, False)
        for (pos, qp, fes), (_, qh, _) in zip(plain, forms(hint, False)): out.append((pos, name, qp, qh, fes))
        for (pos, qp, fes), (_, qh, _) in zip(plain[1:], forms(hint, True)[1:]): out.append((pos + ' (hint around the test)', name, None, qh, fes))
    return out

def _answer(sub, st, q, fe, what, hashes):
    """-> (got rows | None when refused, Expected | None when undecided)"""
    sub.count('queries')
    try: got = run_query(st, q, fe)
    except Exception as e:
        sub.count('refused'); sub.count('refusals:form ' + what); return None, None
    sub.count('answered'); sub.count('ok:form ' + what)
    exp = q.expected(st['data'])
    if exp.undecided:
        sub.count('answered_but_reference_undecided'); return got, None
    if exp.rows: hashes.add(zlib.crc32((fe + q.source(fe)).encode()) & 0xffffffff | (len(q.source(fe)) << 32))
    sub.count('row_comparisons', len(exp.rows))
    return got, exp

def check_slot_form(sub, st, form, hashes):
    if form[0] == 'pk':
        _, pos, shape, q, fes, opts = form
        what = 'composite-pk ' + pos
        for fe in fes:
            got, exp = _answer(sub, st, q, fe, what, hashes)
            if exp is None: continue
            mm = compare(exp, got)
            if opts.get('ordered'):
                # order_by() drops the automatic DISTINCT (deliberate upstream, recorded under C24): multiplicity is
                # not judged here, the values and the sequence are
                n = len(mm); mm = [m for m in mm if m.kind != 'duplicate']
                if n != len(mm): sub.count('ordered_duplicates_not_judged')
                i, desc = opts['ordered']
                keys = [g[i] for g in got if g[i] is not None]
                if not mm and any((a < b) if desc else (a > b) for a, b in zip(keys, keys[1:])): mm = [qx.Mismatch('sequence', None, tuple(keys))]
            if not mm: sub.count('agreed'); continue
            sub.count('disagreed')
            kinds = '+'.join(sorted(set(m.kind for m in mm)))
            sub.violation('form %s: %s: %s' % (what, shape, kinds),
                          dict(query=q.to_json(), frontend=fe, position='form', source=q.source(fe), mismatch=repr(mm[0])), '%s -> %r' % (q.source(fe), mm[0]))
        return
    _, pos, name, qp, qh, fes = form
    what = 'JOIN hint ' + pos
    for fe in fes:
        res = {}
        for label, q in (('plain', qp), ('hinted', qh)):
            if q is None: continue
            got, exp = _answer(sub, st, q, fe, what, hashes)
            res[label] = got
            if exp is None: continue
            mm = compare(exp, got, q.order)
            if not mm: sub.count('agreed'); continue
            sub.count('disagreed')
            kinds = '+'.join(sorted(set(m.kind for m in mm)))
            sub.violation('form %s: %s %s: %s' % (what, label, name, kinds),
                          dict(query=q.to_json(), frontend=fe, position='form', source=q.source(fe), mismatch=repr(mm[0])), '%s -> %r' % (q.source(fe), mm[0]))
        if res.get('plain') is not None and res.get('hinted') is not None:
            sub.count('hint_differentials')
            a, b = sorted(map(repr, res['plain'])), sorted(map(repr, res['hinted']))
            if a != b:
                sub.violation('form %s: %s: the hint changes the answer' % (what, name),
                              dict(query=qh.to_json(), plain=qp.to_json(), frontend=fe, position='hint-differential', source=qh.source(fe)),
                              '%s -> %s but %s -> %s' % (qp.source(fe), a[:6], qh.source(fe), b[:6]))

def slot_forms():
    return [('pk',) + f for f in composite_pk_forms()] + [('hint',) + f for f in join_hint_forms()]

def m2m_hint_queries():
    """JOIN hint over the many-to-many p.tags.w of the main data set (persons without tags)"""
    out = []
    W = attr(attr(P, 'tags'), 'w')
    hint = lambda x: call('join_hint', x.t, x)
    for a in ('sum', 'min', 'max', 'avg', 'count'):
        A = hint(call(a, FLOAT if a == 'avg' else INT, W))
        out.append(('JOIN hint m2m projection', Query([('p', 'Person')], (PID, A)), ('str', 'gen')))
        out.append(('JOIN hint m2m filter == 0', Query([('p', 'Person')], P, [call('eq', COND, A, const(0))]), ('str', 'gen')))
        out.append(('JOIN hint m2m filter not', Query([('p', 'Person')], P, [call('not', COND, A)]), ('str', 'lam')))
    return out

def check_extra(sub, st, hashes):
    for name, q, fes in extra_queries() + m2m_hint_queries():
        exp = q.expected(st['data'])
        for fe in fes:
            sub.count('queries')
            try: got = run_query(st, q, fe)
            except Exception as e:
                sub.count('refused'); sub.count('refusals:form ' + name); continue
            sub.count('answered'); sub.count('ok:form ' + name)
            if exp.undecided: sub.count('answered_but_reference_undecided'); continue
            hashes.add(zlib.crc32((fe + q.source(fe)).encode()) & 0xffffffff | (len(q.source(fe)) << 32))
            mm = compare(exp, got, q.order)
            if not mm: sub.count('agreed'); continue
            sub.count('disagreed')
            kinds = '+'.join(sorted(set(m.kind for m in mm)))
            sub.violation('form %s: %s' % (name, kinds), dict(query=q.to_json(), frontend=fe, position='form', source=q.source(fe), mismatch=repr(mm[0])),
                          '%s -> %r' % (q.source(fe), mm[0]))

# ---- composite (tuple) comparisons ---------------------------------------------------------------------------
# (x.a, x.b) OP (k1, k2), 3-tuples, attribute tuples on both sides and tuples of external variables, for all six
# operators over the full grid {0,1,2}^3 of rows: the reference is Python's own tuple comparison. SQLite has no row
# values in Pony's dialect description, so every ordering comparison is expanded into OR/AND clauses by CmpMonad.
def check_tuple_comparisons(sub):
    import itertools, operator
    from pony import orm
    db = orm.Database()
    class T(db.Entity):
        id = orm.PrimaryKey(int)
        a = orm.Required(int); b = orm.Required(int); c = orm.Required(int)
    db.bind('sqlite', ':memory:'); db.generate_mapping(create_tables=True)
    rows = list(itertools.product((0, 1, 2), repeat=3))
    with orm.db_session:
        for i, (a, b, c) in enumerate(rows, 1): T(id=i, a=a, b=b, c=c)
    OPS = {'<': operator.lt, '<=': operator.le, '>': operator.gt, '>=': operator.ge, '==': operator.eq, '!=': operator.ne}
    cols = {'a': 0, 'b': 1, 'c': 2}
    sides = []                                   # (text, evaluator(row, consts))
    for n in (2, 3):
        for names in itertools.permutations('abc', n):
            sides.append(('(%s)' % ', '.join('x.' + m for m in names), lambda r, k, names=names: tuple(r[cols[m]] for m in names), n, 'attrs'))
    forms = []
    for ltext, lev, n, _ in sides:
        for consts in itertools.product((0, 1, 2), repeat=n):
            if n == 3 and consts[0] != 1: continue                      # the first element decides outside 1: one value is enough
            forms.append((ltext, lev, '(%s)' % ', '.join(map(str, consts)), lambda r, k, consts=consts: consts, None, 'const'))
            forms.append((ltext, lev, '(%s)' % ', '.join('k%d' % i for i in range(n)), lambda r, k, consts=consts: consts, consts, 'param'))
        for rtext, rev, n2, _ in sides:
            if n2 == n and rtext != ltext: forms.append((ltext, lev, rtext, rev, None, 'attrs'))
    with orm.db_session:
        for ltext, lev, rtext, rev, params, kind in forms:
            for op, f in OPS.items():
                for left_first in ((True, False) if kind != 'attrs' else (True,)):
                    text = 'x.id for x in T if %s %s %s' % ((ltext, op, rtext) if left_first else (rtext, op, ltext))
                    g = {'T': T}
                    if params is not None: g.update(('k%d' % i, v) for i, v in enumerate(params))
                    sub.count('queries'); sub.count('tuple_comparison_queries')
                    try: got = sorted(orm.select(text, g, {}))
                    except Exception as e:
                        sub.count('refused'); sub.count('tuple_comparisons_refused'); continue
                    sub.count('answered')
                    exp = sorted(i for i, r in enumerate(rows, 1) if (f(lev(r, params), rev(r, params)) if left_first else f(rev(r, params), lev(r, params))))
                    sub.count('row_comparisons', len(rows))
                    if got == exp: sub.count('agreed'); continue
                    sub.count('disagreed')
                    sub.violation('tuple comparison %s of %d elements (%s): wrong rows' % (op, len(lev(rows[0], params)), kind),
                                  dict(tuple_comparison=text, params=params),
                                  'select(%s)%s: %d rows expected, got %d; first difference %r' % (text, '' if params is None else ' with %r' % (params,), len(exp), len(got), sorted(set(exp) ^ set(got))[:3]))
    db.disconnect()

# ---- date / datetime arithmetic with timedelta constants and parameters ---------------------------------------------
# x.dt +/- timedelta(...), x.d +/- timedelta(days=...) with the timedelta written in the query text (an inline constant:
# SQLite renders 'N days', 'M seconds' modifiers) and passed as an external variable (a bound parameter), as a
# projection and inside a comparison; the reference is Python's own arithmetic. Whole seconds only.
def check_timedelta_arithmetic(sub):
    import itertools
    from datetime import date, datetime, timedelta
    from pony import orm
    db = orm.Database()
    class T(db.Entity):
        id = orm.PrimaryKey(int)
        dt = orm.Required(datetime)
        d = orm.Required(date)
    db.bind('sqlite', ':memory:'); db.generate_mapping(create_tables=True)
    rows = [(1, datetime(2020, 3, 1, 0, 0, 0), date(2020, 3, 1)), (2, datetime(2019, 12, 31, 23, 59, 59), date(2019, 12, 31)),
            (3, datetime(2021, 6, 15, 12, 30, 0), date(2024, 2, 29))]
    with orm.db_session:
        for i, dt, d in rows: T(id=i, dt=dt, d=d)
    deltas = [timedelta(days=dd, seconds=ss) for dd in (-2, -1, 0, 1, 2, 500) for ss in (0, 20, 9000, 86399)]
    deltas = [td for td in deltas if td != timedelta(0)]
    def text_of(td): return 'timedelta(days=%d, seconds=%d)' % (td.days, td.seconds)
    g0 = {'T': T, 'timedelta': timedelta, 'datetime': datetime, 'date': date}
    with orm.db_session:
        for td in deltas:
            for attr, vals in (('dt', {i: dt for i, dt, d in rows}), ('d', {i: d for i, dt, d in rows})):
                if attr == 'd' and td.seconds: continue                 # date +/- a sub-day interval: outside the enumerated space
                for op, f in (('+', lambda a, b: a + b), ('-', lambda a, b: a - b)):
                    for kind in ('const', 'param'):
                        rhs = text_of(td) if kind == 'const' else 'k'
                        g = dict(g0, k=td)
                        exp = {i: f(v, td) for i, v in vals.items()}
                        for form in ('proj', 'cmp'):
                            if form == 'proj': text = '(x.id, x.%s %s %s) for x in T' % (attr, op, rhs)
                            else:
                                pivot = exp[2]
                                text = 'x.id for x in T if x.%s %s %s <= pivot' % (attr, op, rhs); g['pivot'] = pivot
                            sub.count('queries'); sub.count('timedelta_queries')
                            try: got = list(orm.select(text, g, {}))
                            except Exception as e:
                                sub.count('refused'); sub.count('timedelta_refused'); continue
                            sub.count('answered'); sub.count('row_comparisons', len(rows))
                            if form == 'proj':
                                gd = {i: (v.date() if attr == 'd' and isinstance(v, datetime) else v) for i, v in got}
                                ok = gd == exp
                            else:
                                ok = sorted(got) == sorted(i for i, v in exp.items() if v <= pivot)
                            if ok: sub.count('agreed'); continue
                            sub.count('disagreed')
                            neg = 'negative' if td < timedelta(0) else 'positive'
                            shape = 'whole days' if not td.seconds else ('sub-day' if td.days in (0, -1) and abs(td.total_seconds()) < 86400 else 'days and seconds')
                            sub.violation('%s %s timedelta %s (%s, %s, %s): wrong value' % ('datetime' if attr == 'dt' else 'date', op, kind, neg, shape, form),
                                          dict(timedelta_query=text, k=repr(td)),
                                          'select(%s)%s: expected %r, got %r' % (text, '' if kind == 'const' else ' with k=%r' % td, sorted(exp.items())[:3] if form == 'proj' else 'rows with value <= %r' % pivot, got[:3]))
    db.disconnect()

def run(ctx):
    t0 = time.time()
    _EXPRS[1] = qx.enumerate_exprs(P, 1)
    tasks = []
    def chunks(depth, n, size):
        idx = ctx.shuffled(range(n))
        return [(depth, idx[i:i + size]) for i in range(0, n, size)]
    tasks += chunks(1, len(_EXPRS[1]), 40)
    if not ctx.quick:
        _EXPRS[2] = qx.enumerate_exprs(P, 2)
        tasks += chunks(2, len(_EXPRS[2]), 400)
    ctx.cov['expressions_depth1'] = len(_EXPRS[1])
    ctx.cov['expressions_depth2'] = len(_EXPRS.get(2, ()))
    # leaves (depth 0) are placed too
    L = qx.grammar_leaves(P)
    _EXPRS[0] = [x for t in (INT, FLOAT, DEC, STR, BOOL, DATE, 'Dept') for x in L[t]]
    tasks += chunks(0, len(_EXPRS[0]), 8)
    _EXPRS['slots'] = slot_forms()
    tasks += chunks('slots', len(_EXPRS['slots']), 24)
    ctx.cov['slot_forms'] = len(_EXPRS['slots'])
    hashes = set()
    results = ctx.pmap(work, ctx.shuffled(tasks))
    for d in results:
        hashes.update(d.pop('hashes'))
        core.absorb(ctx, d)
    sub = core.Sub()
    check_extra(sub, state(), hashes)
    check_tuple_comparisons(sub)
    check_timedelta_arithmetic(sub)
    core.absorb(ctx, sub.dump())
    c = ctx.counters
    queries, answered, refused = c.get('queries', 0), c.get('answered', 0), c.get('refused', 0)
    ctx.guard('queries executed', queries, 20000)
    ctx.guard('percent of queries answered (refusal share must stay below 60%)', int(100.0 * answered / max(1, queries)), 41)
    prods = sorted(set(k.split(':', 1)[1] for k in c if k.startswith(('ok:', 'refusals:', 'unplaced:'))))
    never = [p_ for p_ in prods if not c.get('ok:' + p_)]
    ctx.cov['productions'] = {p_: dict(answered=c.get('ok:' + p_, 0), refused=c.get('refusals:' + p_, 0)) for p_ in prods}
    ctx.cov['productions_never_answered'] = never
    ctx.guard('grammar productions answered at least once (of %d)' % len(prods), len(prods) - len(never), len(prods))
    ctx.guard('row comparisons', c.get('row_comparisons', 0), 100000)
    ctx.guard('tuple comparison queries answered', c.get('tuple_comparison_queries', 0) - c.get('tuple_comparisons_refused', 0), 1000)
    ctx.guard('plain / JOIN-hinted pairs both answered and compared with each other', c.get('hint_differentials', 0), 200)
    for k in [k for k in list(c) if k.startswith(('ok:', 'refusals:', 'unplaced:'))]: del c[k]
    ctx.assume('SQLite 3.40 in-memory database is the executing engine; data reach it through Pony itself (C06/C07 cover storage)')
    ctx.assume('reference evaluator conventions of DESIGN section 2 QX; rows for which Python has no answer (ZeroDivisionError, attribute of None, IndexError, int("ab"), ordering of None, `None not in subquery`) accept either outcome')
    ctx.assume('Decimal(10,2) values pass through SQLite floats: compared with tolerance 0.005; floats with relative tolerance 1e-9; str(Decimal) is not enumerated')
    ctx.assume('depth 2 is exhaustive over the pruned operand lists described in qx.enumerate_exprs, not over all depth-1 operands')
    return dict(evaluations=queries, distinct_nontrivial=len(hashes),
                rule='every expression of the typed grammar (depth 1 full operand lists%s) x position x front end is one query; '
                     'distinct_nontrivial counts distinct (front end, query text) pairs that Pony answered and whose reference '
                     'result is decided and non-empty' % ('' if ctx.quick else '; depth 2 pruned operand lists'))

def replay(ctx, case):
    if 'timedelta_query' in case:
        sub = core.Sub(); check_timedelta_arithmetic(sub)
        bad = [e for e in sub.found.values() if e['case'].get('timedelta_query') == case['timedelta_query']]
        for e in bad: print(e['message'])
        return not bad
    if 'tuple_comparison' in case:
        sub = core.Sub(); check_tuple_comparisons(sub)
        bad = [e for e in sub.found.values() if e['case'].get('tuple_comparison') == case['tuple_comparison']]
        for e in bad: print(e['message'])
        return not bad
    q = Query.from_json(case['query'])
    st = state_slots() if q.dataset == 'slots' else state()
    if case.get('position') == 'hint-differential':
        qp, fe = Query.from_json(case['plain']), case['frontend']
        a, b = sorted(map(repr, qp.run(st['db'], fe))), sorted(map(repr, q.run(st['db'], fe)))
        print('plain   :', qp.source(fe), '->', a[:8]); print('hinted  :', q.source(fe), '->', b[:8])
        return a == b
    fe = case['frontend']
    print('query   :', q.source(fe))
    try: got = q.run(st['db'], fe)
    except Exception as e:
        print('refused :', type(e).__name__, e); return True
    try:
        from pony.orm import db_session
        with db_session: print('sql     :', q.make(st['db'], fe).get_sql().replace('\n', ' '))
    except Exception: pass
    exp = q.expected(st['data'])
    if exp.undecided:
        print('reference undecided:', exp.undecided); return True
    mm = compare(exp, got, q.order)
    if case.get('row') is not None and any(row_id(m) == case['row'] for m in mm):
        mm = [m for m in mm if row_id(m) == case['row']]     # the recorded row only (other rows may show other findings)
    elif case.get('row') is not None and case.get('position') in ('projT', 'filter', 'order'): mm = []
    for m in mm[:8]: print('mismatch:', m)
    print('expected rows %d (%s), got rows %d' % (len(exp.rows), exp.mode, len(got)))
    return not mm
