"""C06 helpers: small lexical models (DM, trusted base) for SQL literals and quoted identifiers.

standard SQL (SQLite, PostgreSQL with standard_conforming_strings=on, Oracle): inside '...' only ''
is special. MySQL (default sql_mode, i.e. without NO_BACKSLASH_ESCAPES): additionally backslash
escapes (MySQL reference manual, "String Literals", table of special character escape sequences).
"""
import re, datetime, decimal

class LexError(Exception): pass

_MYSQL_ESC = {'0': '\0', "'": "'", '"': '"', 'b': '\b', 'n': '\n', 'r': '\r', 't': '\t', 'Z': '\x1a', '\\': '\\'}

def lex_string(text, pos, mysql):
    """text[pos] == "'" : return (decoded value, index after the closing quote)."""
    if pos >= len(text) or text[pos] != "'": raise LexError('string literal expected at %d in %r' % (pos, text))
    i, n, out = pos + 1, len(text), []
    while i < n:
        c = text[i]
        if c == "'":
            if i + 1 < n and text[i + 1] == "'": out.append("'"); i += 2; continue
            return ''.join(out), i + 1
        if mysql and c == '\\':
            if i + 1 >= n: raise LexError('backslash at end of input')
            e = text[i + 1]
            if e in _MYSQL_ESC: out.append(_MYSQL_ESC[e])
            elif e in '%_': out.append('\\' + e)          # \% and \_ keep the backslash outside LIKE
            else: out.append(e)
            i += 2; continue
        out.append(c); i += 1
    raise LexError('unterminated string literal in %r' % text)

_NUM = re.compile(r'[+-]?(\d+\.?\d*|\.\d+)([eE][+-]?\d+)?\Z')

def decode_literal(text, mysql=False, postgres=False):
    """The value an inline literal denotes: ('null',) ('bool', b) ('num', Decimal) ('str', s)
    ('bytes', b) ('bits', hex) ('date', d) ('datetime', dt) ('interval', td).  Raises LexError when
    the text is not exactly one literal (i.e. the value would change the statement's structure)."""
    t = text
    if t == 'null': return ('null',)
    if t in ('true', 'false'): return ('bool', t == 'true')
    if _NUM.match(t): return ('num', decimal.Decimal(t))
    if t.startswith("'"):
        s, end = lex_string(t, 0, mysql)
        if end != len(t): raise LexError('text after the string literal: %r' % t[end:])
        return ('str', s)
    m = re.match(r"(X|TIMESTAMP |DATE |INTERVAL )(?=')", t)
    if not m: raise LexError('not a literal: %r' % t)
    s, end = lex_string(t, m.end(), mysql)
    rest = t[end:]
    kw = m.group(1)
    if kw == 'X':
        if rest: raise LexError('text after hex literal')
        if not re.fullmatch(r'([0-9a-fA-F]{2})*', s): raise LexError('bad hex digits')
        return ('bits', s.lower()) if postgres else ('bytes', bytes.fromhex(s))
    if kw == 'DATE ':
        if rest: raise LexError('text after date literal')
        mm = re.fullmatch(r'(\d{4})-(\d\d)-(\d\d)', s)
        if not mm: raise LexError('bad date %r' % s)
        return ('date', datetime.date(*map(int, mm.groups())))
    if kw == 'TIMESTAMP ':
        if rest: raise LexError('text after timestamp literal')
        mm = re.fullmatch(r'(\d{4})-(\d\d)-(\d\d) (\d\d):(\d\d):(\d\d)(?:\.(\d{1,6}))?', s)
        if not mm: raise LexError('bad timestamp %r' % s)
        g = mm.groups()
        return ('datetime', datetime.datetime(*map(int, g[:6]), int((g[6] or '0').ljust(6, '0'))))
    units = (' HOUR_SECOND', ' HOUR_MICROSECOND') if mysql else (' HOUR TO SECOND',)
    if rest not in units: raise LexError('bad interval unit %r' % rest)
    mm = re.fullmatch(r'(-?)(\d+):(\d+):(\d+)(?:\.(\d{1,6}))?', s)
    if not mm: raise LexError('bad interval %r' % s)
    sign, h, mi, sec, frac = mm.groups()
    if frac and rest == ' HOUR_SECOND': raise LexError('fraction with HOUR_SECOND')
    td = datetime.timedelta(hours=int(h), minutes=int(mi), seconds=int(sec), microseconds=int((frac or '0').ljust(6, '0')))
    return ('interval', -td if sign else td)

def lex_quoted_name(text, qc):
    """Decode a (possibly dotted) sequence of quoted identifiers; returns list of names."""
    names, i, n = [], 0, len(text)
    while True:
        if i >= n or text[i] != qc: raise LexError('quote expected at %d in %r' % (i, text))
        i += 1; out = []
        while True:
            if i >= n: raise LexError('unterminated identifier in %r' % text)
            c = text[i]
            if c == qc:
                if i + 1 < n and text[i + 1] == qc: out.append(qc); i += 2; continue
                i += 1; break
            out.append(c); i += 1
        names.append(''.join(out))
        if i == n: return names
        if text[i] != '.': raise LexError('text after identifier: %r' % text[i:])
        i += 1

def strings_over(alphabet, maxlen):
    import itertools
    return [''.join(t) for n in range(maxlen + 1) for t in itertools.product(alphabet, repeat=n)]
