"""C14 Primary and unique keys are never silently duplicated.

SX monitor over the models with explicit / auto / composite keys and optional unique keys holding None:
 (1) after every successful commit no two committed rows agree on a declared key (checked on the raw
     dump with the declared key columns, NULLs never conflict);
 (2) the session's public view never holds two live objects with equal non-None key values;
 (3) a conflict found at flush time (the session dies with an integrity error) leaves the committed rows
     exactly as they were after the last successful commit, and nothing of that session is visible to a
     later session;
 (4) a history whose session view (twin) would give two rows the same key must not commit successfully.
Any exception counts as "reported"; internal assertion errors are accepted but counted as ungraceful.
"""
from vf import core
from vf.engines import sx

LEVEL = 'model_checking'
COMMITS = ('commit', 'end')

def declared_keys(env):
    out = []
    for root in env.root_entities:
        e = env.E[root]
        keys = [tuple(e._pk_attrs_)] + [(a,) for a in e._simple_keys_] + [tuple(k) for k in e._composite_keys_]
        for sub_ in sorted(e._subclasses_, key=lambda c: c.__name__):
            keys += [(a,) for a in sub_._simple_keys_ if (a,) not in keys]
        out.append((root, keys))
    return out

def dup_in_view(env, view, keys):
    bad = []
    for root, ks in keys:
        for attrs in ks:
            seen = {}
            for lbl, vals in sorted(view.items()):
                if vals is None or not lbl.startswith(root + ':'): continue
                k = tuple(vals.get(a.name) for a in attrs)
                if any(v is None for v in k): continue
                if k in seen: bad.append('%s(%s)' % (root, ','.join(a.name for a in attrs)))
                seen[k] = lbl
    return sorted(set(bad))

def worker(args):
    name, tier, seed, fixture = args
    from vf.models import catalog
    sub = core.Sub()
    env = sx.Env(catalog.by_name(name))
    rel = name.split('-')[0]
    keys = declared_keys(env)
    ops = [op for op in env.ops() if op[0] != 'qdel']
    ex = sx.Explorer(env, fixtures=(fixture,), ops=ops)
    ex.track_dumps = True
    def visit(env_, fx, hist, x):
        op = hist[-1]
        o = x.obs[-1]
        before, after = (x.dumps + [None, None])[:2] if x.dumps else (None, None)
        if o[0] == 'exc':
            sub.count('exc:' + str(o[1]))
            if o[1] in ('AssertionError', 'KeyError'): sub.count('ungraceful_reports')
            if x.died:
                sub.count('flush_time_failures')
                if before is not None and after != before:
                    sub.violation('%s|%s|flush-time-failure-changed-rows' % (rel, sx.kinds(hist)),
                                  dict(model=name, fixture=fixture, history=hist, before=before, after=after),
                                  'the failing %r (%s) changed committed rows' % (op, o[1]))
        if not (op[0] in COMMITS and o[0] == 'ok') and before is not None and after is not None and after != before:
            # rows became visible to other sessions outside a successful commit: a later conflict
            # could not leave the database unchanged for this session
            sub.violation('%s|%s|rows-committed-outside-commit' % (rel, sx.kinds(hist)),
                          dict(model=name, fixture=fixture, history=hist, before=before, after=after),
                          '%r changed committed rows (obs %r)' % (op, o))
        if op[0] in COMMITS and o[0] == 'ok':
            sub.count('commits')
            view = env.decode_dump(after, x.pk2label)
            bad = dup_in_view(env, view, keys)
            if bad:
                sub.violation('%s|%s|duplicate-rows:%s' % (rel, sx.kinds(hist), ';'.join(bad)),
                              dict(model=name, fixture=fixture, history=hist, rows=after), 'committed duplicate keys %s' % bad)
    def on_state(env_, fx, hist):
        if sx.latent_conflict(fixture, hist): return
        x = env.run(list(hist) + [('view_noflush',)], fixture, record_sql=False)
        if x.skipped or x.obs[-1][0] != 'ok': return
        sub.count('views_checked')
        bad = dup_in_view(env, x.obs[-1][1], keys)
        if bad:
            small = sx.shrink(list(hist) + [('view_noflush',)],
                              lambda h: (lambda y: y.obs[-1][0] == 'ok' and bool(dup_in_view(env, y.obs[-1][1], keys)))(env.run(h, fixture, record_sql=False)))[:-1]
            sub.violation('%s|%s|duplicate-keys-in-session:%s' % (rel, sx.kinds(small), ';'.join(bad)),
                          dict(model=name, fixture=fixture, history=small), 'two live objects of the session hold the same key %s' % bad)
    ex.run(2, visit, order=sx.seeded_order(seed), on_state=on_state,
           last_only=(lambda op: op[0] in COMMITS + ('flush',)))
    env.close()
    for s in ex.samples: sub.sample(s)
    return dict(sub=sub.dump(), states=ex.states, transitions=ex.transitions, executions=ex.executions)

def run(ctx):
    agg = sx.run_catalogue(ctx, worker, tier='quick' if ctx.quick else 'thorough')
    ctx.guard('commits checked', ctx.counters.get('commits', 0), 500)
    ctx.guard('conflicts reported at the call (CacheIndexError)', ctx.counters.get('exc:CacheIndexError', 0), 50)
    ctx.guard('conflicts reported at flush time', ctx.counters.get('flush_time_failures', 0), 50)
    ctx.cov['per_model'] = agg['per_model']
    ctx.cov['bounds'] = 'all histories of depth <= 2 from both fixtures + depth 3 ending in flush/commit/end; key moves, delete-then-recreate, explicit ids meeting existing rows, optional unique keys holding None'
    ctx.assume('SQLite enforces the UNIQUE constraints Pony declares (schema correctness is C26); any exception counts as reported')
    return dict(states=agg['states'], transitions=agg['transitions'], traces_validated_against_impl=agg['executions'])

def replay(ctx, case):
    from vf.models import catalog
    env = sx.Env(catalog.by_name(case['model']))
    hist = [tuple(tuple(x) if isinstance(x, list) else x for x in o) for o in case['history']]
    x = env.run(hist, case['fixture'], track_dumps=True)
    print(x.obs, x.dumps)
    env.close()
    return False
