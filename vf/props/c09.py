"""C09 Committed database state equals the state the program committed.

SX monitor. For every explored history whose last operation commits (explicit commit() or leaving the
session normally) a twin execution of the same prefix reads the whole session through the public API
just before the commit (expected state); the primary execution commits and an independent raw
connection dumps all tables, decoded with the column mapping only. They must be equal. For every other
last operation (including rollback, leaving with an exception, failing commits) the committed rows
must be unchanged.
"""
from vf import core
from vf.engines import sx

LEVEL = 'model_checking'
COMMITS = ('commit', 'end')

def diff(a, b):
    out = []
    for k in sorted(set(a) | set(b)):
        if a.get(k) != b.get(k):
            if k not in a or k not in b: out.append((k, 'missing in ' + ('session' if k not in a else 'database')))
            else: out += [(k, attr) for attr in sorted(set(a[k]) | set(b[k])) if a[k].get(attr) != b[k].get(attr)]
    return out

def worker(args):
    name, tier, seed, fixture = args
    from vf.models import catalog
    sub = core.Sub()
    env = sx.Env(catalog.by_name(name))
    ex = sx.Explorer(env, fixtures=(fixture,), ops=[op for op in env.ops() if op[0] != 'qdel'] + [r for r in env.shaping_reads() if r[0] in ('r_attr', 'r_cin')])   # bulk delete bypasses the cache by design: C15
    def visit(env, fixture, hist, x):
        op = hist[-1]
        before = x.dumps[-2] if len(x.dumps) >= 2 else None
        after = x.dumps[-1]
        if op[0] in COMMITS and x.obs[-1][0] == 'ok':
            sub.count('committing_histories')
            tw = env.run(hist[:-1] + [('view',)], fixture, record_sql=False)
            if tw.obs[-1][0] != 'ok':
                sub.count('twin_view_failed'); return
            expected = tw.obs[-1][1]
            lost = tw.facts_violated(expected) if not sx.latent_conflict(fixture, hist) else []
            if lost:
                def still(h):
                    t2 = env.run(h[:-1] + [('view',)], fixture, record_sql=False)
                    return (not t2.skipped) and t2.obs[-1][0] == 'ok' and bool(t2.facts_violated(t2.obs[-1][1]))
                small = sx.shrink(hist, still)
                t2 = env.run(small[:-1] + [('view',)], fixture, record_sql=False)
                lost2 = t2.facts_violated(t2.obs[-1][1]) if t2.obs[-1][0] == 'ok' else lost
                sub.violation('%s|%s|session-lost-a-modification|%s' % (name.split('-')[0], sx.kinds(small), ','.join(lost2 or lost)),
                              dict(model=name, fixture=fixture, history=small, facts=sorted(map(repr, t2.facts.items())), view=t2.obs[-1]),
                              'after %r the session no longer shows what the program did: %s' % (small, lost2 or lost))
            got = env.decode_dump(after, x.pk2label)
            if got != expected:
                small = sx.shrink(hist, lambda h: mismatch(env, fixture, h) is not None)
                expected, got = mismatch(env, fixture, small)
                d = diff(expected, got)
                comp = sorted(set('%s.%s' % (k.split(':')[0], a) for k, a in d))
                sig = '%s|%s|commit-mismatch|%s' % (name.split('-')[0], sx.kinds(small), ','.join(comp))
                sub.violation(sig, dict(model=name, fixture=fixture, history=small, expected=expected, got=got),
                              'after %r the database differs from the session view in %s' % (small, d[:6]))
            elif before is not None and after != before: sub.count('commits_that_changed_rows')
        else:
            if before is not None and after != before:
                sig = '%s|%s|rows-changed-without-commit' % (name.split('-')[0], kinds(hist))
                sub.violation(sig, dict(model=name, fixture=fixture, history=hist, before=before, after=after),
                              'committed rows changed by %r (obs %r)' % (op, x.obs[-1]))
    depth = 3 if tier != 'quick' and sx.deep_model(name, fixture) else 2
    ex.track_dumps = True
    ex.run(depth, visit, order=sx.seeded_order(seed), last_only=(lambda op: op[0] in COMMITS + ('rollback', 'raise')))
    env.close()
    for s in ex.samples: sub.sample(s)
    return dict(sub=sub.dump(), states=ex.states, transitions=ex.transitions, executions=ex.executions)

def kinds(hist):
    return sx.kinds(hist)

def mismatch(env, fixture, hist):
    """(expected, got) if committing history `hist` leaves rows that differ from the session view"""
    x = env.run(hist, fixture, record_sql=False, track_dumps=True)
    if x.skipped or x.obs[-1][0] != 'ok': return None
    tw = env.run(hist[:-1] + [('view',)], fixture, record_sql=False)
    if tw.skipped or tw.obs[-1][0] != 'ok': return None
    got = env.decode_dump(x.dumps[-1], x.pk2label)
    return None if got == tw.obs[-1][1] else (tw.obs[-1][1], got)

def run(ctx):
    agg = sx.run_catalogue(ctx, worker, fixtures=('populated', 'empty', 'populated-seeds'))
    ctx.guard('committing histories', ctx.counters.get('committing_histories', 0), 100)
    ctx.guard('commits that changed rows', ctx.counters.get('commits_that_changed_rows', 0), 50)
    ctx.cov['per_model'] = agg['per_model']
    ctx.cov['bounds'] = ('all histories of 2 operations + an ending (commit/end/rollback/raise) from every fixture' if ctx.quick else 'all histories of 3 operations + an ending from every fixture for the plain one-to-many and many-to-many models from the populated fixture, of 2 operations + an ending for the option variants')
    ctx.assume('SQLite only; values restricted to the SX alphabets (ints {0,1}, strs {u1,u2}, two objects per entity + one creatable)')
    return dict(states=agg['states'], transitions=agg['transitions'], traces_validated_against_impl=agg['executions'])

def replay(ctx, case):
    from vf.models import catalog
    env = sx.Env(catalog.by_name(case['model']))
    hist = [tuple(o) for o in case['history']]
    x = env.run(hist, case['fixture'], track_dumps=True)
    tw = env.run(hist[:-1] + [('view',)], case['fixture'])
    print('obs', x.obs); print('session view before commit', tw.obs[-1]); print('database', env.decode_dump(x.dumps[-1], x.pk2label))
    ok = tw.obs[-1][0] != 'ok' or env.decode_dump(x.dumps[-1], x.pk2label) == tw.obs[-1][1]
    env.close()
    return ok
