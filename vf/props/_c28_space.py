"""Program space of C28: documents, container paths, step templates, access routes.

A *step* is one line (or two: alias binding + statement) of Python source that refers to the
entity instance as `obj`; the same text runs against a Pony object and against a plain holder.
meta = dict(ckind, op, route, path) describes the shape for signatures."""
import copy, json

ARRAY_ATTR = dict(IntArray='ia', StrArray='sa', FloatArray='fa')

_LEAF_D = {'k': 1, 'm': 2}
_LEAF_L = [3, 1, 2]
def _dict_of(children):
    d = {'k': 1, 'm': 'x'}
    d.update(children)
    return d
def _list_of(children):
    return [3, 1] + list(children)

_JSON = {
    # root dict: child dict (holding a dict and a list) and child list (holding a dict and a list)
    'D': _dict_of({'d': _dict_of({'d': dict(_LEAF_D), 'l': list(_LEAF_L)}),
                   'l': _list_of([dict(_LEAF_D), list(_LEAF_L)])}),
    # root list
    'L': _list_of([_dict_of({'d': dict(_LEAF_D), 'l': list(_LEAF_L)}),
                   _list_of([dict(_LEAF_D), list(_LEAF_L)])]),
}
_ARRAYS = dict(IntArray=[3, 1, 2], StrArray=['c', 'a', 'b'], FloatArray=[3.5, 1.5, 2.5])
_ARRAY_VALUES = dict(IntArray=('9', '8', '1'), StrArray=("'z'", "'y'", "'a'"), FloatArray=('9.5', '8.5', '1.5'))

DOCUMENTS = [('json', 'D'), ('json', 'L'), ('IntArray', 'A'), ('StrArray', 'A'), ('FloatArray', 'A')]

def document(vk, name):
    return copy.deepcopy(_JSON[name] if vk == 'json' else _ARRAYS[vk])

def container_paths(doc):
    """paths (tuples of keys / indexes) of every dict / list inside doc, root first, deterministic"""
    out = []
    def walk(v, p):
        if isinstance(v, dict):
            out.append(p)
            for k in v: walk(v[k], p + (k,))
        elif isinstance(v, list):
            out.append(p)
            for i, x in enumerate(v): walk(x, p + (i,))
    walk(doc, ())
    return out

def at(doc, path):
    for p in path: doc = doc[p]
    return doc

def shared_paths(doc):
    """paths of containers that are reachable by more than one path (same object twice)"""
    seen = {}
    def walk(v, p):
        if isinstance(v, (dict, list)):
            seen.setdefault(id(v), []).append(p)
            for k in (v if isinstance(v, dict) else range(len(v))): walk(v[k], p + (k,))
    walk(doc, ())
    return set(p for ps in seen.values() if len(ps) > 1 for p in ps)

def same_kind(doc_a, doc_b, path):
    try: return type(at(doc_a, path)) is type(at(doc_b, path))
    except (KeyError, IndexError, TypeError): return False

# ---- step templates: (op name for the signature, statement with {c}) ---------------------------------
DICT_MUT = [
    ('__setitem__', '{c}["z"] = 9'),
    ('__setitem__', '{c}["k"] = 9'),
    ('__setitem__', '{c}["z"] = {{"q": [5]}}'),
    ('__setitem__', '{c}["k"] = [{{"q": 5}}]'),
    ('__delitem__', 'del {c}["k"]'),
    ('update', '{c}.update({{"z": 9, "k": [5]}})'),
    ('update', '{c}.update([("z", 9), ("k", [5])])'),
    ('update', '{c}.update(z=9, k=[5])'),
    ('update', '{c}.update({{"z": {{"q": 5}}}}, k=[5])'),
    ('update', '{c}.update(KV())'),
    ('update', '{c}.update(iter([("z", [5])]))'),
    ('update', '{c}.update()'),
    ('setdefault', '{c}.setdefault("z", [5])'),
    ('setdefault', '{c}.setdefault("k", [5])'),
    ('setdefault', '{c}.setdefault("z")'),
    ('setdefault', '{c}.setdefault("z", []).append(5)'),
    ('setdefault', '{c}.setdefault("z", {{}})["q"] = 5'),
    ('pop', '{c}.pop("k")'),
    ('pop', '{c}.pop("zz", None)'),
    ('pop', '{c}.pop("zz")'),
    ('popitem', '{c}.popitem()'),
    ('clear', '{c}.clear()'),
    ('|=', '{c} |= {{"z": 9, "k": [5]}}'),
    ('|=', '{c} |= [("z", [5])]'),
]
LIST_MUT = [
    ('__setitem__', '{c}[0] = 9'),
    ('__setitem__', '{c}[-1] = 9'),
    ('__setitem__', '{c}[0] = {{"q": [5]}}'),
    ('__setitem__[slice]', '{c}[0:1] = [9, [5]]'),
    ('__setitem__[slice]', '{c}[::2] = [7, 8]'),
    ('__setitem__[slice]', '{c}[1:] = []'),
    ('__setitem__[slice]', '{c}[:] = ({{"q": 5}},)'),
    ('__delitem__', 'del {c}[0]'),
    ('__delitem__', 'del {c}[-1]'),
    ('__delitem__[slice]', 'del {c}[0:2]'),
    ('__delitem__[slice]', 'del {c}[::2]'),
    ('append', '{c}.append(9)'),
    ('append', '{c}.append({{"q": [5]}})'),
    ('extend', '{c}.extend([9, [5]])'),
    ('extend', '{c}.extend((9, 8))'),
    ('extend', '{c}.extend(x for x in [9, {{"q": 5}}])'),
    ('insert', '{c}.insert(0, 9)'),
    ('insert', '{c}.insert(1, [5])'),
    ('pop', '{c}.pop()'),
    ('pop', '{c}.pop(0)'),
    ('remove', '{c}.remove(1)'),
    ('sort', '{c}.sort()'),
    ('sort', '{c}.sort(key=lambda v: str(v))'),
    ('sort', '{c}.sort(reverse=True)'),
    ('sort', '{c}.sort(key=lambda v: str(v), reverse=True)'),
    ('reverse', '{c}.reverse()'),
    ('clear', '{c}.clear()'),
    ('+=', '{c} += [9, [5]]'),
    ('+=', '{c} += (9,)'),
    ('*=', '{c} *= 2'),
    ('*=', '{c} *= 0'),
]
# arrays: {v} new value, {w} second new value, {e} a value that is present
ARRAY_MUT = [
    ('__setitem__', '{c}[0] = {v}'),
    ('__setitem__', '{c}[-1] = {v}'),
    ('__setitem__[slice]', '{c}[0:1] = [{v}, {w}]'),
    ('__setitem__[slice]', '{c}[::2] = [{v}, {w}]'),
    ('__setitem__[slice]', '{c}[1:] = []'),
    ('__delitem__', 'del {c}[0]'),
    ('__delitem__', 'del {c}[-1]'),
    ('__delitem__[slice]', 'del {c}[0:2]'),
    ('__delitem__[slice]', 'del {c}[::2]'),
    ('append', '{c}.append({v})'),
    ('extend', '{c}.extend([{v}, {w}])'),
    ('extend', '{c}.extend(({v},))'),
    ('extend', '{c}.extend(x for x in [{v}, {w}])'),
    ('insert', '{c}.insert(0, {v})'),
    ('insert', '{c}.insert(5, {v})'),
    ('pop', '{c}.pop()'),
    ('pop', '{c}.pop(0)'),
    ('remove', '{c}.remove({e})'),
    ('sort', '{c}.sort()'),
    ('sort', '{c}.sort(key=lambda v: str(v))'),
    ('sort', '{c}.sort(reverse=True)'),
    ('sort', '{c}.sort(key=lambda v: str(v), reverse=True)'),
    ('reverse', '{c}.reverse()'),
    ('clear', '{c}.clear()'),
    ('+=', '{c} += [{v}, {w}]'),
    ('+=', '{c} += ({v},)'),
    ('*=', '{c} *= 2'),
    ('*=', '{c} *= 0'),
]
DICT_READ = [
    ('__getitem__', '{c}["k"]'),
    ('get', '{c}.get("k")'),
    ('get', '{c}.get("zz", [])'),
    ('get', '{c}.get("zz", []).append(1)'),
    ('len', 'len({c})'),
    ('in', '"k" in {c}; "zz" in {c}'),
    ('iter', 'for x in {c}: pass'),
    ('keys', 'list({c}.keys())'),
    ('values', 'list({c}.values())'),
    ('items', 'list({c}.items())'),
    ('copy', '{c}.copy()'),
    ('copy', 'u = {c}.copy(); u["z"] = 1; u.pop("k")'),
    ('get_untracked', 'UNTRACK({c})'),
    ('get_untracked', 'u = UNTRACK({c}); u["z"] = 1; [x.clear() for x in u.values() if isinstance(x, (dict, list))]'),
    ('==', '{c} == {{"k": 1}}; {c} != {{}}'),
    ('==', '{c} == {c}'),
    ('json.dumps', 'json.dumps({c})'),
    ('repr', 'repr({c}); str({c})'),
    ('bool', 'bool({c})'),
    ('dict()', 'u = dict({c}); u["z"] = 1'),
    ('|', 'u = {c} | {{"z": 1}}; u["y"] = 2'),
    ('sorted', 'sorted({c})'),
    ('copy.copy', 'u = copy.copy({c}); u["z"] = 1'),
    ('copy.deepcopy', 'u = copy.deepcopy({c}); u.clear()'),
    ('pickle', 'u = pickle.loads(pickle.dumps({c})); u.clear()'),
]
LIST_READ = [
    ('__getitem__', '{c}[0]; {c}[-1]'),
    ('__getitem__[slice]', '{c}[0:2]; {c}[::2]'),
    ('__getitem__[slice]', 'u = {c}[:]; u.append(1); u.reverse()'),
    ('len', 'len({c})'),
    ('in', '1 in {c}; 77 in {c}'),
    ('iter', 'for x in {c}: pass'),
    ('reversed', 'list(reversed({c}))'),
    ('index', '{c}.index(1)'),
    ('count', '{c}.count(1)'),
    ('copy', 'u = {c}.copy(); u.append(1); u.pop(0)'),
    ('get_untracked', 'UNTRACK({c})'),
    ('get_untracked', 'u = UNTRACK({c}); u.append(1); [x.clear() for x in u if isinstance(x, (dict, list))]'),
    ('==', '{c} == [3, 1]; {c} != []'),
    ('<', '{c} < [9]; {c} >= [0]'),
    ('json.dumps', 'json.dumps({c})'),
    ('repr', 'repr({c}); str({c})'),
    ('bool', 'bool({c})'),
    ('list()', 'u = list({c}); u.append(1)'),
    ('+', 'u = {c} + [9]; u += [1]'),
    ('*', 'u = {c} * 2; u.clear()'),
    ('sorted', 'sorted({c}, key=str)'),
    ('copy.copy', 'u = copy.copy({c}); u.append(1)'),
    ('copy.deepcopy', 'u = copy.deepcopy({c}); u.clear()'),
    ('pickle', 'u = pickle.loads(pickle.dumps({c})); u.clear()'),
    ('tuple', 'tuple({c}); set(x for x in {c} if isinstance(x, (int, str, float)))'),
]
ARRAY_READ = [t for t in LIST_READ] + [
    ('in', '[{e}] in {c}; ({e}, {v}) in {c}; {e} in {c}; {v} in {c}'),
    ('min', 'min({c}); max({c}); sum(1 for x in {c})'),
]

def _sub(p):
    return '[%r]' % (p,)

def _routes(path, kinds, routes):
    """yield (prelude, container expression, route class). kinds[i] is the kind of the container
    *holding* path[i]. 'attr' = attribute route only; 'core' = attribute route + full local alias; 'attr+aug-alias' (handled by the
    caller) = attribute route for everything, full alias only for the augmented assignments."""
    n = len(path)
    full = 'obj.data' + ''.join(_sub(p) for p in path)
    yield '', full, 'attr'
    if routes == 'attr': return
    yield 'a = %s; ' % full, 'a', 'alias'
    if routes == 'core': return
    for k in range(n):          # alias bound at a proper prefix
        pre = 'obj.data' + ''.join(_sub(p) for p in path[:k])
        yield 'a = %s; ' % pre, 'a' + ''.join(_sub(p) for p in path[k:]), 'alias-prefix'
    if n:
        parent = 'obj.data' + ''.join(_sub(p) for p in path[:-1])
        last = path[-1]
        if kinds[-1] is dict:
            hops = [('hop:get', '%s.get(%r)' % (parent, last)),
                    ('hop:copy', '%s.copy()[%r]' % (parent, last)),
                    ('hop:values', '[v for kk, v in %s.items() if kk == %r][0]' % (parent, last)),
                    ('hop:dict()', 'dict(%s)[%r]' % (parent, last))]
        else:
            hops = [('hop:negative-index', '%s[%d - len(%s)]' % (parent, last, parent)),
                    ('hop:slice', '%s[:][%d]' % (parent, last)),
                    ('hop:iter', '[x for x in %s][%d]' % (parent, last)),
                    ('hop:copy', '%s.copy()[%d]' % (parent, last)),
                    ('hop:reversed', 'list(reversed(%s))[%d - len(%s)]' % (parent, -1 - last, parent))]
        for name, expr in hops:
            yield 'a = %s; ' % expr, 'a', name

_AUG = ('+=', '*=', '|=')

def steps(vk, doc, readonly, routes):
    """all steps applicable to the current document: list of (source, meta)"""
    out = []
    if vk != 'json':
        v, w, e = _ARRAY_VALUES[vk]
        attr = ARRAY_ATTR[vk]
        templates = ARRAY_READ if readonly else ARRAY_MUT
        for pre, c, route in (('', 'obj.' + attr, 'attr'), ('a = obj.%s; ' % attr, 'a', 'alias')):
            if routes == 'attr' and route != 'attr': continue
            for op, t in templates:
                src = pre + t.replace('{{', '{').replace('}}', '}').replace('{c}', c).replace('{v}', v).replace('{w}', w).replace('{e}', e)
                out.append((src, dict(ckind='list', op=op, route=route, path=[])))
        return out
    for path in container_paths(doc):
        target = at(doc, path)
        kinds, cur = [], doc
        for p in path:
            kinds.append(type(cur)); cur = cur[p]
        if isinstance(target, dict):
            templates, ckind = (DICT_READ if readonly else DICT_MUT), 'dict'
        else:
            templates, ckind = (LIST_READ if readonly else LIST_MUT), 'list'
        for pre, c, route in _routes(path, kinds, 'core' if routes == 'attr+aug-alias' else routes):
            for op, t in templates:
                if routes == 'attr+aug-alias' and route == 'alias' and op not in _AUG: continue
                r = route
                if route.startswith('hop:') and op in _AUG:
                    r = 'alias'      # an augmented assignment to a bare local name, however it was obtained
                src = pre + t.replace('{{', '{').replace('}}', '}').replace('{c}', c)
                out.append((src, dict(ckind=ckind, op=op, route=r, path=list(path))))
    return out

class _H(object): pass

def apply_plain(vk, doc, src):
    """the document after running `src` on a plain copy; None if plain Python raises"""
    from vf.props import c28
    h = c28.Holder(copy.deepcopy(doc))
    if vk != 'json': setattr(h, ARRAY_ATTR[vk], h.data)
    try: exec(c28._compile(src), c28._ns(h))
    except Exception: return None
    return h.data if vk == 'json' else getattr(h, ARRAY_ATTR[vk])
