"""C02 The same query over the same data gives the same answer on every dialect - SCOPED claim.

What is enumerated: the C01 depth-1 query space (every expression of the typed QX grammar of exact depth 1 and every
depth-0 operand, placed in every position C01's quick tier uses - filter, projection, projection tuple, order_by, nested
subquery, aggregate argument - plus C01's hand-shaped join / grouping / inheritance forms, plus LIMIT / OFFSET / count()
query-method forms), through the select("text") front end (front ends are C01's business: the translators below see the
same AST). Thorough adds the depth-2 filter / projection-tuple shapes of the pruned C01 depth-2 grammar.

Every query is translated by the REAL SQLite, PostgreSQL and MySQL provider classes (translator + SQL builder +
converters; stub drivers, mock pool). SQLite results come from the real engine. The PostgreSQL / MySQL SQL text is
executed on the DM substrate (vf.engines.dm, extended mode): PEP 249 binder model, lexical model, a closed list of token
rewrites, a closed list of functions with the vendors' documented semantics as UDFs; the rows go back through Pony's own
result pipeline. Oracle: each dialect's answer must equal the Python answer of the QX reference evaluator (hence each
other). Oracle and CockroachDB builders are only rendered (no internal crash, every placeholder binds).

Never judged (counted per reason in coverage): whatever the model does not fix - collation-dependent string ordering,
MySQL's case-insensitive equality / LIKE, MySQL integer `/`, decimal and float `/ %`, interval / date arithmetic,
group_concat, locale-dependent case mapping, any text outside the closed rewrite / function lists.

Reported under C02 (signature = dialect + minimal failing operator skeleton + operand classes, found by C01's
shrinking-by-projection run on that dialect's engine; failures are matched across engines by (blamed sub-expression,
row)): a failure of PostgreSQL / MySQL that SQLite does not share, or a failure of SQLite that a decided dialect does
not share (the dialects then differ). Not reported: a failure shared with SQLite (C01's finding) - including a failure on
a query SQLite refuses whose signature SQLite shows on other queries; a shared failing sub-expression is replaced by a
plain operand and the blame moved to the enclosing operator when only the dialect's query disagrees. A statement the
dialect model rejects (or that does not run at all) while SQLite answers and Python has an answer on every row is a
violation as well. Any exception Pony raises at translation time is a refusal (allowed).
Vacuity guards: decided share per dialect (measured 69 % / 62 %), every production judged at least once per dialect
unless all its queries are undecided for a static, documented reason, row comparisons, queries rendered.
AGREEMENT WITH LIVE SERVERS IS NOT ESTABLISHED: every PostgreSQL / MySQL verdict is model-based (DM is trusted base).
"""
import os, zlib
from vf import core
from vf.engines import dm, qx
from vf.engines.qx import X, var, attr, const, param, call, src, Query, compare, INT, FLOAT, DEC, STR, BOOL, DATE, COND, ms, is_ms
from vf.props import c01
from vf.props import _c02_lib as L
from vf.props import _c02_judge as J

LEVEL = 'exploration'
P, PID = c01.P, c01.PID
MODEL = ('postgres', 'mysql')
RENDER = ('oracle', 'cockroach')
PENDING = '~sqlite refuses the query~'
INTERNAL = (AssertionError, KeyError, AttributeError, IndexError, NameError, UnboundLocalError, RecursionError)
# measured on the unchanged tree (quick): postgres 69 %, mysql 63 % of the queries Pony translates are decided by the model and judged;
# what is left is undecided for the reasons listed in coverage.dialects.<d>.undecided_by_reason (string collation above all)
MIN_SHARE = {'postgres': 65, 'mysql': 58}

# ------------------------------------------------------------------------------------------------------------
_STATE = {}
def state():
    key = os.getpid()
    st = _STATE.get(key)
    if st is None:
        data = qx.dataset('pairs')
        eng = {'sqlite': L.SqliteEngine('pairs')}
        for d in MODEL: eng[d] = L.ModelEngine(d, 'pairs')
        for d in RENDER: eng[d] = L.RenderEngine(d)
        st = _STATE[key] = dict(eng=eng, data=data, ev=qx.Evaluator(data), proj={}, exp={}, pids={o.id: o for o in data.persons})
    return st

def _hash(d, text): return zlib.crc32((d + text).encode()) & 0xffffffff | (len(text) << 32)

def check_query(sub, st, pos, q, E, prods, hashes, ev=None, render=True):
    """one query on every engine; returns {dialect: outcome kind}"""
    text = q.source('str')
    exp = None
    outs, sigs = {}, {}
    for d in L.DIALECTS:
        out = outs[d] = J.run_on(st['eng'][d], st, q)
        sub.count(d + ':queries')
        if out.kind == 'refused':
            sub.count(d + ':refused'); continue
        if out.kind == 'undecided':
            sub.count(d + ':undecided'); sub.count('%s:undecided:%s' % (d, out.why))
            for p_ in prods: sub.count('%s:%s:%s' % ('bydesign' if out.why in L.STATIC_REASONS else 'other', d, p_))
            continue
        if out.kind != 'answered':
            for p_ in prods: sub.count('other:%s:%s' % (d, p_))
        if exp is None: exp = q.expected(st['data'], ev)
        if out.kind == 'broken' and outs['sqlite'].kind == 'refused':
            # the same statement is rejected by the real SQLite engine as well (e.g. an aggregate rendered into WHERE): refused alike
            sub.count(d + ':refused'); sub.count(d + ':refused_like_sqlite_by_the_engine'); continue
        if out.kind == 'broken':
            sub.count(d + ':not_executable')
            for p_ in prods: sub.count('judged:%s:%s' % (d, p_))      # a verdict is given
            M = J.blame_refusal(st['eng'][d], st, E, 'broken:' + out.why) if E is not None else None
            shape = qx.op_skeleton(M or E) if E is not None else pos
            why = out.why
            if 'misuse of aggregate' in why:
                why = 'misuse of aggregate'
                if (M or E) is not None and (M or E).op in qx.LIFT_AGGS: shape = 'truth value of aggregate(attr:collection) in a filter: aggregate rendered into WHERE'
            sub.violation('%s: SQL text of a decided query does not run under the dialect model: %s: %s' % (d, shape, why),
                          case(d, pos, q, E, sql=out.sql), '%s [%s] -> %s' % (text, pos, out.why))
            continue
        if out.kind == 'dialect_refused':
            sub.count(d + ':refused_by_dialect_model'); sub.count('%s:refused_by_dialect_model:%s' % (d, out.why))
            if out.why != L.R_ZERO and not exp.undecided and not any(python_raises(r) for r in exp.rows) and outs['sqlite'].kind == 'answered':
                # Python has an answer on every row and SQLite gives one, but the server would reject the statement
                M = J.blame_refusal(st['eng'][d], st, E, 'dialect_refused:' + out.why) if E is not None else None
                name = 'slice/index' if ((M or E) is not None and (M or E).op in J.SLICES) else (qx.op_skeleton(M or E) if E is not None else pos)
                for p_ in prods: sub.count('judged:%s:%s' % (d, p_))      # a verdict is given
                sub.violation('%s: server rejects the statement: %s: %s' % (d, name, out.why), case(d, pos, q, E, sql=out.sql),
                              '%s [%s] -> %s' % (text, pos, out.why))
            else: sub.count(d + ':refused_by_dialect_model_where_python_raises_too')
            continue
        # answered
        if exp.undecided:
            sub.count(d + ':undecided'); sub.count('%s:undecided:reference evaluator: %s' % (d, exp.undecided)); outs[d] = J.Out('undecided')
            for p_ in prods: sub.count('other:%s:%s' % (d, p_))
            continue
        sub.count(d + ':judged')
        if exp.rows: hashes.add(_hash(d, text))
        sub.count(d + ':row_comparisons', len(exp.rows))
        for p_ in prods: sub.count('judged:%s:%s' % (d, p_))
        mm = compare(exp, out.rows, q.order)
        if not mm:
            sub.count(d + ':agreed'); sigs[d] = {}
        else:
            sub.count(d + ':disagreed_with_python')
            sigs[d] = J.signatures(st['eng'][d], st, pos, q, E, mm)
    base = sigs.get('sqlite')
    sq = st['eng']['sqlite']
    for v in (base or {}).values(): sub.count('sqlitesig:' + v[0])
    for d in MODEL:
        if d not in sigs: continue
        eng = st['eng'][d]
        if any(base is None or key not in base for key in sigs[d]): sub.count(d + ':queries_disagreeing_otherwise_than_sqlite')
        for key, (sig, m, rid, M) in sorted(sigs[d].items(), key=lambda kv: (kv[1][0], str(kv[0]))):
            if base is not None and key in base:
                sub.count(d + ':same_failure_as_sqlite(C01)'); continue
            note = ''
            if base is None and M is not None and rid is not None and J.fails_as_projection(sq, st, M, rid) and J.expr_sig(sq, st, M, rid) == sig:
                # SQLite refuses the whole query, but gets the blamed sub-expression wrong in the same way: C01's finding
                sub.count(d + ':same_failure_as_sqlite(C01)'); continue
            if M is not None and rid is not None and J.fails_as_projection(sq, st, M, rid):
                # the blamed sub-expression fails on SQLite as well (C01's), yet only this dialect's query disagrees: look above it
                alt = J.reattribute(eng, sq, st, E, M, rid) if M is not E else []
                if alt:
                    for M2, sig2 in alt:
                        sub.count(d + ':dialect_specific_disagreement'); sub.count(d + ':reattributed_above_a_shared_failure')
                        sub.violation('%s: %s' % (d, sig2), case(d, pos, q, E, sql=outs[d].sql, mismatch=repr(m), row=rid, signature=sig2, reattributed_from=sig),
                                      '%s [%s] on %s -> %r; blamed %s after replacing the sub-expression %s (fails alike on SQLite) by a plain operand'
                                      % (text, pos, d, m, src(M2), src(M)))
                    continue
                note = ' (the sub-expression fails on SQLite too; its value or its effect in this query differs)'
                sig = sig + ' / differently from SQLite in: ' + qx.op_skeleton(E)
            sub.count(d + ':dialect_specific_disagreement')
            # SQLite refuses the whole query: whether this is C01's finding (same signature on SQLite elsewhere) is settled in run()
            sub.violation('%s%s: %s' % ('' if base is not None else PENDING, d, sig), case(d, pos, q, E, sql=outs[d].sql, mismatch=repr(m), row=rid, signature=sig),
                          '%s [%s] on %s -> %r%s%s' % (text, pos, d, m, '' if base is not None else ' (SQLite refuses the query)', note))
    if base:
        for key, (sig, m, rid, M) in sorted(base.items(), key=lambda kv: (kv[1][0], str(kv[0]))):
            agree = [d for d in MODEL if d in sigs and key not in sigs[d]]
            if E is not None and rid is not None:
                # a dialect that gets a sub-expression wrong on that row agrees with Python by compensation only: not counted as agreeing
                clean = [d for d in agree if not J.failing_part(st['eng'][d], st, E, rid)]
                if len(clean) < len(agree): sub.count('sqlite:sqlite_only_disagreement_compensated_on_a_dialect')
                agree = clean
            if not agree: continue
            sub.count('sqlite:sqlite_only_disagreement')
            sub.violation('sqlite differs (%s agree%s with Python): %s' % (' and '.join(agree), 's' if len(agree) == 1 else '', sig),
                          case(agree[0], pos, q, E, sql=outs[agree[0]].sql, mismatch=repr(m), row=rid, signature=sig, sqlite_only=agree),
                          '%s [%s] on sqlite -> %r; %s agree(s) with Python' % (text, pos, m, ', '.join(agree)))
    if render:
        for d in RENDER:
            sub.count(d + ':queries')
            try:
                sql, bound, vals = st['eng'][d].render(q)
                sub.count(d + ':rendered'); sub.count(d + ':placeholders_bound', len(vals))
            except (dm.Undecided, LookupError) as e:
                if isinstance(e, dm.Undecided) or outs['sqlite'].kind != 'refused':
                    sub.count(d + ':render_failures')
                    sub.violation('%s: placeholder does not bind / render crash: %s: %s' % (d, type(e).__name__, qx.op_skeleton(E) if E is not None else pos),
                                  case(d, pos, q, E), '%s [%s] -> %s: %s' % (text, pos, type(e).__name__, e))
                else: sub.count(d + ':refused')
            except INTERNAL as e:
                if outs['sqlite'].kind != 'refused' and not all(outs[m_].kind == 'refused' for m_ in MODEL):
                    sub.count(d + ':render_failures')
                    sub.violation('%s: render crash: %s: %s' % (d, type(e).__name__, qx.op_skeleton(E) if E is not None else pos),
                                  case(d, pos, q, E), '%s [%s] -> %s: %s' % (text, pos, type(e).__name__, e))
                else: sub.count(d + ':refused')
            except Exception as e:
                sub.count(d + ':refused')
    return dict((d, o.kind) for d, o in outs.items())

def python_raises(r):
    """reference row on which Python itself has no answer (it raises): a server error is then the faithful outcome"""
    return r.wild or r.optional or bool(r.okeys and any(k is qx.UNORDERED for k in r.okeys))

def case(d, pos, q, E, **kw):
    c = dict(dialect=d, position=pos, source=q.source('str'), query=q.to_json() if isinstance(q, Query) else None,
             form=getattr(q, 'name', None), expr=qx.to_json(E) if E is not None else None)
    sql = kw.pop('sql', None)
    if sql: c['sql'], c['arguments'] = sql[0], repr(sql[1])
    c.update(kw)
    return c

def check_expr(sub, st, E, deep, hashes):
    prods = qx.prods_in(E)
    ev = qx.Evaluator(st['data'])
    ev.memo_ids = (id(E),)
    n = 0
    for pos, q, fes in c01.placements(E, deep):
        check_query(sub, st, pos, q, E, prods, hashes, ev, render=not deep); n += 1
    return n

def decided_fragment(E):
    """thorough tier, depth 2: expressions no node of which is statically undecided on both model dialects"""
    for n in qx.walk(E):
        if qx.is_leaf(n): continue
        if all(L.node_reason(d, n) for d in MODEL): return False
    return True

_EXPRS = {}
def work(task):
    depth, idxs = task
    if depth == 'extra': return work_extra(idxs)
    st = state()
    sub = core.Sub()
    hashes = set()
    exprs = _EXPRS[depth]
    for i in idxs:
        E = exprs[i]
        check_expr(sub, st, E, depth == 2, hashes)
        if len(sub.samples) < 2 and i % 131 == 0:
            pl = c01.placements(E, depth == 2)
            if pl:
                pos, q, _ = pl[0]
                sm = dict(depth=depth, position=pos, query=q.source('str'))
                for d in MODEL:
                    o = J.run_on(st['eng'][d], st, q)
                    sm[d] = dict(outcome=o.kind, why=o.why, sql=o.sql[0] if o.sql else None, arguments=repr(o.sql[1]) if o.sql else None)
                sub.sample(sm)
    d = sub.dump()
    d['hashes'] = sorted(hashes)
    return d

# ------------------------------------------------------------------------------------------------------------
# query-method forms: LIMIT / OFFSET rendering and count() forms
class Form(object):
    """a qx.Query plus a method of the pony Query object; expect(rows) gives the Python answer from the reference rows of the
    base query sorted by their first column (the primary key), or None: compared with SQLite's answer only"""
    order = ()
    def __init__(self, name, base, method, expect, text):
        self.name, self.base, self.method, self.expect, self.text = name, base, method, expect, text
        self.fors, self.proj, self.conds = base.fors, base.proj, base.conds
    def all_nodes(self): return self.base.all_nodes()
    def distinct(self): return self.base.distinct()
    def source(self, fe='str'): return self.base.source(fe) + self.text
    def to_json(self): return dict(form=self.name)
    def run(self, db, fe='str'):
        from pony.orm import db_session
        with db_session:
            r = self.method(self.base.make(db, fe))
            if isinstance(r, (bool, int)): return [(r,)]
            return [qx.norm_row(x) for x in r]

def forms():
    one = [('p', 'Person')]
    by_id = [(PID, False)]
    bases = [('entities', Query(one, P, order=by_id)), ('pairs', Query(one, (PID, attr(P, 'm')), order=by_id)),
             ('filtered', Query(one, (PID, attr(P, 'n')), [call('gt', COND, attr(P, 'm'), const(0))], order=by_id))]
    meths = [('[:3]', lambda q: q[:3], lambda r: r[:3]), ('[2:5]', lambda q: q[2:5], lambda r: r[2:5]),
             ('[2:]', lambda q: q[2:], lambda r: r[2:]), ('[100:]', lambda q: q[100:], lambda r: r[100:]),
             ('.limit(2, offset=1)', lambda q: q.limit(2, offset=1)[:], lambda r: r[1:3]),
             ('.limit(4)', lambda q: q.limit(4)[:], lambda r: r[:4]),
             ('.page(2, 3)', lambda q: q.page(2, 3), lambda r: r[3:6]), ('.first()', lambda q: [x for x in [q.first()] if x is not None], lambda r: r[:1])]
    out = []
    for bn, b in bases:
        for mn, m, e in meths: out.append(Form('%s%s' % (bn, mn), b, m, e, mn))
    t = var('t', 'Tag')
    counts = [('entities', Query(one, P)), ('n', Query(one, attr(P, 'n'))), ('(n, m)', Query(one, (attr(P, 'n'), attr(P, 'm')))),
              ('(m, b)', Query(one, (attr(P, 'm'), attr(P, 'b')))), ('(n, f)', Query(one, (attr(P, 'n'), attr(P, 'f')))),
              ('(p, t)', Query([('p', 'Person'), ('t', attr(P, 'tags'))], (P, t))),
              ('(n, t.w)', Query([('p', 'Person'), ('t', attr(P, 'tags'))], (attr(P, 'n'), attr(t, 'w')))),
              ('dept', Query(one, attr(P, 'dept'))), ('(s, m)', Query(one, (attr(P, 's'), attr(P, 'm'))))]
    for bn, b in counts:
        out.append(Form('count %s' % bn, b, lambda q: q.count(), None, '.count()'))
        out.append(Form('exists %s' % bn, b, lambda q: q.exists(), None, '.exists()'))
    return out

def check_forms(sub, st, hashes):
    for f in forms():
        outs = {d: J.run_on(st['eng'][d], st, f) for d in L.DIALECTS}
        exp = None
        if f.expect is not None:
            e = f.base.expected(st['data'])
            rows = sorted((tuple(qx.canon(v) for v in r.vals) for r in e.rows), key=lambda r: r[0][2] if isinstance(r[0], tuple) else r[0])
            exp = f.expect(rows)
        for d in L.DIALECTS:
            o = outs[d]
            sub.count(d + ':queries')
            if o.kind == 'refused': sub.count(d + ':refused'); continue
            if o.kind == 'undecided': sub.count(d + ':undecided'); sub.count('%s:undecided:%s' % (d, o.why)); continue
            if o.kind in ('broken', 'dialect_refused'):
                sub.count(d + ':not_executable' if o.kind == 'broken' else d + ':refused_by_dialect_model')
                sub.count('judged:%s:form %s' % (d, f.text if f.expect is not None else f.name.split(' ')[0]))
                sub.violation('%s: form %s: %s' % (d, f.name.split(' ')[0] if f.expect is None else f.text, 'SQL text does not run under the dialect model' if o.kind == 'broken' else 'server rejects the statement'),
                              case(d, 'form', f, None, sql=o.sql), '%s -> %s' % (f.source(), o.why))
                continue
            sub.count(d + ':judged'); sub.count('judged:%s:form %s' % (d, f.text if f.expect is not None else f.name.split(' ')[0]))
            hashes.add(_hash(d, f.source()))
            got = [tuple(qx.canon(v) for v in r) for r in o.rows]
            ref = exp if exp is not None else ([tuple(qx.canon(v) for v in r) for r in outs['sqlite'].rows] if outs['sqlite'].kind == 'answered' else None)
            if ref is None or got == list(ref) or (d == 'sqlite' and exp is None): sub.count(d + ':agreed'); continue
            if d == 'sqlite': sub.count('sqlite:disagreed_with_python'); continue       # list semantics of query methods on SQLite: C24
            sub.count(d + ':dialect_specific_disagreement')
            sub.violation('%s: form %s' % (d, f.name), case(d, 'form', f, None, sql=o.sql, got=repr(got)[:300], expected=repr(list(ref))[:300]),
                          '%s on %s -> %s, %s gives %s' % (f.source(), d, repr(got)[:200], 'Python' if exp is not None else 'SQLite', repr(list(ref))[:200]))

def check_extra(sub, st, hashes):
    for name, q, fes in c01.extra_queries():
        check_query(sub, st, 'form ' + name, q, None, ['form ' + name], hashes)

def check_rowforms(sub, st, hashes):
    """COUNT(DISTINCT row) forms: an entity with a composite primary key (own tiny schema and data)"""
    eng = {'sqlite': L.SqliteEngine(define=L.ck_define, load=L.ck_load)}
    for d in MODEL: eng[d] = L.ModelEngine(d, define=L.ck_define, load=L.ck_load)
    for f in L.ck_queries():
        outs = {d: J.run_on(eng[d], st, f) for d in L.DIALECTS}
        for d in L.DIALECTS:
            o = outs[d]
            sub.count(d + ':queries')
            if o.kind == 'refused': sub.count(d + ':refused'); continue
            if o.kind == 'undecided': sub.count(d + ':undecided'); sub.count('%s:undecided:%s' % (d, o.why)); sub.count('other:%s:form COUNT(DISTINCT row)' % d); continue
            if o.kind in ('broken', 'dialect_refused'):
                sub.count(d + ':not_executable' if o.kind == 'broken' else d + ':refused_by_dialect_model')
                sub.count('judged:%s:form COUNT(DISTINCT row)' % d)
                sub.violation('%s: form COUNT(DISTINCT row): %s' % (d, 'SQL text does not run under the dialect model' if o.kind == 'broken' else 'server rejects the statement'),
                              case(d, 'rowform', f, None, sql=o.sql), '%s -> %s' % (f.source(), o.why))
                continue
            sub.count(d + ':judged'); sub.count('judged:%s:form COUNT(DISTINCT row)' % d)
            hashes.add(_hash(d, f.source()))
            got = set(tuple(qx.canon(v) for v in r) for r in o.rows)
            ref = set(tuple(qx.canon(v) for v in r) for r in f.expect)
            if got == ref and len(o.rows) == len(got): sub.count(d + ':agreed'); continue
            sub.count(d + ':disagreed_with_python')
            if d == 'sqlite': continue
            if outs['sqlite'].kind == 'answered' and set(tuple(qx.canon(v) for v in r) for r in outs['sqlite'].rows) == got:
                sub.count(d + ':same_signature_as_sqlite(C01)'); continue
            sub.count(d + ':dialect_specific_disagreement')
            sub.violation('%s: form COUNT(DISTINCT row): %s' % (d, f.name), case(d, 'rowform', f, None, sql=o.sql, got=repr(sorted(got))[:300], expected=repr(sorted(ref))[:300]),
                          '%s on %s -> %s, Python gives %s' % (f.source(), d, repr(sorted(got))[:200], repr(sorted(ref))[:200]))

def work_extra(_):
    st = state()
    sub = core.Sub()
    hashes = set()
    check_extra(sub, st, hashes)
    check_forms(sub, st, hashes)
    check_rowforms(sub, st, hashes)
    d = sub.dump()
    d['hashes'] = sorted(hashes)
    return d

# ------------------------------------------------------------------------------------------------------------
def run(ctx):
    _EXPRS[1] = qx.enumerate_exprs(P, 1)
    Lv = qx.grammar_leaves(P)
    _EXPRS[0] = [x for t in (INT, FLOAT, DEC, STR, BOOL, DATE, 'Dept') for x in Lv[t]]
    def chunks(depth, n, size):
        idx = ctx.shuffled(range(n))
        return [(depth, idx[i:i + size]) for i in range(0, n, size)]
    tasks = chunks(1, len(_EXPRS[1]), 20) + chunks(0, len(_EXPRS[0]), 8)
    if not ctx.quick:
        _EXPRS[2] = [E for E in qx.enumerate_exprs(P, 2) if decided_fragment(E)]
        tasks += chunks(2, len(_EXPRS[2]), 400)
    ctx.cov['expressions_depth0'] = len(_EXPRS[0])
    ctx.cov['expressions_depth1'] = len(_EXPRS[1])
    ctx.cov['expressions_depth2_decided_fragment'] = len(_EXPRS.get(2, ()))
    hashes = set()
    workers = min(ctx.nworkers, 16)
    # the forms task builds engines of its own (composite-key schema): first, so that it does not become the tail of the run
    results = ctx.pmap(work, [('extra', 0)] + ctx.shuffled(tasks), workers=workers)
    for d in results:
        hashes.update(d.pop('hashes'))
        core.absorb(ctx, d)
    c = ctx.counters
    # a disagreement of a model dialect on a query that SQLite refuses: C01's finding when SQLite shows the same signature elsewhere
    sqlite_sigs = set(k.split(':', 1)[1] for k in c if k.startswith('sqlitesig:'))
    for k in sorted(k for k in ctx.found if k.startswith(PENDING)):
        e = ctx.found.pop(k)
        name = k[len(PENDING):]
        d, sig = name.split(': ', 1)
        if sig in sqlite_sigs: ctx.count(d + ':same_signature_as_sqlite_on_other_queries(C01)', e['n'])
        else: ctx.merge_found({name: e})
    for k in [k for k in list(c) if k.startswith('sqlitesig:')]: del c[k]
    ctx.cov['sqlite_failing_signatures'] = len(sqlite_sigs)
    per = {}
    prods = sorted(set(k.split(':', 2)[2] for k in c if k.startswith(('judged:', 'bydesign:', 'other:'))))
    for d in L.DIALECTS:
        q, ref, und = c.get(d + ':queries', 0), c.get(d + ':refused', 0), c.get(d + ':undecided', 0)
        never = [p_ for p_ in prods if not c.get('judged:%s:%s' % (d, p_))]
        # undecided by design: never judged, and every query with that production that Pony translated was undecided for a static
        # (expression-tree) reason; anything else that is never judged fails the guard below
        bydesign = [p_ for p_ in never if c.get('bydesign:%s:%s' % (d, p_)) and not c.get('other:%s:%s' % (d, p_))]
        per[d] = dict(sqlite_only_disagreements=c.get('sqlite:sqlite_only_disagreement', 0)) if d == 'sqlite' else {}
        per[d].update(queries=q, refused_by_pony=ref, undecided=und, judged=c.get(d + ':judged', 0), agreed_with_python=c.get(d + ':agreed', 0),
                      disagreed_with_python=c.get(d + ':disagreed_with_python', 0), refused_by_dialect_model=c.get(d + ':refused_by_dialect_model', 0),
                      refused_by_dialect_model_where_python_raises_too=c.get(d + ':refused_by_dialect_model_where_python_raises_too', 0),
                      not_executable=c.get(d + ':not_executable', 0), row_comparisons=c.get(d + ':row_comparisons', 0),
                      dialect_specific_failing_rows=c.get(d + ':dialect_specific_disagreement', 0),
                      queries_disagreeing_otherwise_than_sqlite=c.get(d + ':queries_disagreeing_otherwise_than_sqlite', 0),
                      same_failure_as_sqlite=c.get(d + ':same_failure_as_sqlite(C01)', 0) + c.get(d + ':same_signature_as_sqlite(C01)', 0),
                      same_signature_as_sqlite_on_other_queries=c.get(d + ':same_signature_as_sqlite_on_other_queries(C01)', 0),
                      reattributed_above_a_shared_failure=c.get(d + ':reattributed_above_a_shared_failure', 0),
                      # a query whose text does not run under the model gets a verdict (a violation) as well
                      decided_share_percent=int(100.0 * (c.get(d + ':judged', 0) + c.get(d + ':not_executable', 0)) / max(1, q - ref)),
                      undecided_by_reason={k.split(':', 2)[2]: v for k, v in sorted(c.items()) if k.startswith(d + ':undecided:')},
                      refused_by_dialect_model_by_reason={k.split(':', 2)[2]: v for k, v in sorted(c.items()) if k.startswith(d + ':refused_by_dialect_model:')},
                      productions_judged=len(prods) - len(never), productions_undecided_by_design=bydesign,
                      productions_never_judged_unexpectedly=[p_ for p_ in never if p_ not in bydesign])
    for d in RENDER:
        per[d] = dict(queries=c.get(d + ':queries', 0), rendered=c.get(d + ':rendered', 0), refused_by_pony=c.get(d + ':refused', 0),
                      placeholders_bound=c.get(d + ':placeholders_bound', 0), render_failures=c.get(d + ':render_failures', 0))
    ctx.cov['dialects'] = per
    ctx.cov['productions'] = len(prods)
    for k in [k for k in list(c) if k.startswith(('judged:', 'bydesign:', 'other:')) or ':undecided:' in k or ':refused_by_dialect_model:' in k]: del c[k]
    # vacuity guards
    ctx.guard('queries per dialect', min(per[d]['queries'] for d in L.DIALECTS), 20000)
    for d in MODEL:
        ctx.guard('%s: decided share (percent of the queries Pony translated)' % d, per[d]['decided_share_percent'], MIN_SHARE[d])
        missing = per[d]['productions_never_judged_unexpectedly']
        ctx.guard('%s: productions judged at least once (of %d; %d are undecided by design)' % (d, len(prods), len(per[d]['productions_undecided_by_design'])),
                  len(prods) - len(missing), len(prods))
        ctx.guard('%s: row comparisons' % d, per[d]['row_comparisons'], 300000)
    for d in RENDER:
        ctx.guard('%s: queries rendered' % d, per[d]['rendered'], 15000)
    ctx.assume('AGREEMENT WITH LIVE SERVERS IS NOT ESTABLISHED. PostgreSQL 16 / MariaDB 10.11 are represented by vf.engines.dm: the PEP 249 binder '
               'model, a lexical model, a closed list of token rewrites and function models written from the vendor manuals, executed on SQLite as '
               'relational substrate; every PostgreSQL / MySQL verdict is model-based')
    ctx.assume('operators are judged only where SQLite provably coincides with the dialect: || = <> < <= > >= on numbers / dates (ISO text) / NULL, '
               'string equality on PostgreSQL (deterministic collation), + - *, integer / and % on PostgreSQL, integer % on MySQL, floating-point /, '
               'AND OR NOT IS NULL IN BETWEEN CASE, SELECT DISTINCT / GROUP BY / joins / subqueries over such values')
    ctx.assume('PostgreSQL static type resolution is not modelled apart from boolean vs integer (TRUE is a sentinel value on the substrate); '
               'driver delivery: DATE arrives as datetime.date, everything else as SQLite delivers it and through Pony\'s own sql2py converters')
    ctx.assume('SQLite is the real engine (in-memory); the front ends gen/lambda and the reference conventions are C01\'s; slices are named by C25 regions')
    return dict(evaluations=sum(per[d]['queries'] for d in per), distinct_nontrivial=len(hashes),
                rule='(dialect, query) pairs: every depth-0/1 expression of the QX grammar%s x C01 position, C01 join/group forms and LIMIT/OFFSET/count forms, '
                     'each translated by 5 real provider classes; evaluations counts translations attempted; distinct_nontrivial counts distinct (dialect, query text) '
                     'pairs of sqlite/postgres/mysql that were executed, are decided by the model and have a non-empty reference result'
                     % ('' if ctx.quick else ' and every depth-2 expression of the decided fragment (pruned operand lists, projection tuple and filter)'))

def replay(ctx, case):
    st = state()
    d = case['dialect']
    if case.get('position') == 'rowform':
        sub = core.Sub()
        check_rowforms(sub, st, set())
        for sig, v in sorted(sub.found.items()): print('found   :', sig, '|', v['message'][:300])
        return not any(k.startswith(d + ': form COUNT(DISTINCT row)') for k in sub.found)
    if case.get('form') and not case.get('query'):
        f = [f for f in forms() if f.name == case['form']]
        if not f: print('unknown form'); return True
        f = f[0]
        outs = {e: J.run_on(st['eng'][e], st, f) for e in ('sqlite', d)}
        for e, o in outs.items(): print(e, o.kind, o.why, o.rows if o.rows is None else o.rows[:8], o.sql and o.sql[0].replace('\n', ' '))
        if outs[d].kind in ('broken', 'dialect_refused'): return outs['sqlite'].kind != 'answered'
        if f.expect is None: return outs[d].kind != 'answered' or outs['sqlite'].kind != 'answered' or [tuple(qx.canon(v) for v in r) for r in outs[d].rows] == [tuple(qx.canon(v) for v in r) for r in outs['sqlite'].rows]
        e = f.base.expected(st['data'])
        rows = sorted((tuple(qx.canon(v) for v in r.vals) for r in e.rows), key=lambda r: r[0][2] if isinstance(r[0], tuple) else r[0])
        print('python:', f.expect(rows)[:8])
        return outs[d].kind != 'answered' or [tuple(qx.canon(v) for v in r) for r in outs[d].rows] == list(f.expect(rows))
    q = Query.from_json(case['query'])
    E = qx.from_json(case['expr']) if case.get('expr') else None
    print('query   :', q.source('str'))
    sub = core.Sub()
    kinds = check_query(sub, st, case['position'], q, E, [], set(), render=False)
    print('outcomes:', kinds)
    for e in ('sqlite', d):
        eng = st['eng'][e]
        if e != 'sqlite' and eng.last: print('%-8s: %s %r' % (e, eng.last[0].replace('\n', ' '), eng.last[1]))
    for k in [k for k in sub.found if k.startswith(PENDING)]: sub.found[k[len(PENDING):]] = sub.found.pop(k)
    for sig, v in sorted(sub.found.items()): print('found   :', sig, '|', v['message'][:300])
    want = case.get('signature')
    if want is None: return not sub.found
    if case.get('sqlite_only'): return not any(k.startswith('sqlite differs') and k.endswith(': ' + want) for k in sub.found)
    return (d + ': ' + want) not in sub.found
