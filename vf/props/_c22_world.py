"""C22 world: the entity model, the query functions the threads share (module level, so that every
thread uses the SAME code objects and therefore the same cache keys), the list of process-wide caches
that is cleared between executions, and the list of Pony code objects whose lines are scheduling
points. Everything is looked up by attribute on the imported modules and fails loudly when missing.
"""
import os, sqlite3, threading
from vf import core
from vf.seams import dbapi
from vf.props import _c22_sched as sched

LIMIT = 30          # global read by a hybrid method (goes through func_extractors_map / func_vartypes)

class World(object):
    pass

_WORLD = None

PEOPLE = [  # id, name, nick, age, score, grp
    (1, 'anna', 'bolt', 20, 70, 1), (2, 'bert', 'argo', 35, 50, 1), (3, 'cleo', 'dune', 41, 90, 2),
    (4, 'dirk', 'echo', 35, 20, 2), (5, 'abel', 'crow', 64, 70, 2)]
SCRATCH = [(o * 10 + v, o, v) for o in range(3) for v in range(4)]      # id, owner, v

def world():
    """One Database per process, file based, bound through the DB-API seam."""
    global _WORLD
    if _WORLD is not None: return _WORLD
    from pony import orm
    from pony.orm import core as pcore
    w = World()
    w.orm, w.pcore = orm, pcore
    db = w.db = orm.Database()
    class Grp(db.Entity):
        name = orm.Required(str)
        people = orm.Set('Person')
    class Person(db.Entity):
        name = orm.Required(str)
        nick = orm.Required(str)
        age = orm.Required(int)
        score = orm.Required(int)
        grp = orm.Required(Grp)
        def older(self, n):                 # hybrid method with a parameter
            return self.age > n
        def senior(self):                   # hybrid method reading a module global
            return self.age > LIMIT
        @property
        def label(self):                    # hybrid property
            return self.name + '/' + self.nick
    class Scratch(db.Entity):
        owner = orm.Required(int)
        v = orm.Required(int)
    w.Grp, w.Person, w.Scratch = Grp, Person, Scratch
    w.path = os.path.join(dbapi.scratch_dir(), 'c22-%d.sqlite' % os.getpid())
    if os.path.exists(w.path): os.unlink(w.path)
    db.bind('sqlite', w.path, create_db=True, factory=dbapi.VfConnection, timeout=0)
    @db.on_connect(provider='sqlite')
    def _fast_journal(db, con):            # C22 does not study crashes: keep the rollback journal in memory
        sqlite3.Connection.execute(con, 'PRAGMA journal_mode = MEMORY')
    db.generate_mapping(create_tables=True)
    db.disconnect()
    w.raw = sqlite3.connect(w.path, isolation_level=None, check_same_thread=False)
    w.raw.execute('PRAGMA journal_mode = MEMORY')
    w.raw.execute('insert into Grp (id, name) values (1, "g1"), (2, "g2")')
    w.raw.executemany('insert into Person (id, name, nick, age, score, grp) values (?,?,?,?,?,?)', PEOPLE)
    threading.stack_size(512 * 1024)          # threads are created per execution: keep them cheap
    w.locks = (sched.SchedLock('pre'), sched.SchedLock('tx'))
    prov = db.provider
    for a in ('pre_transaction_lock', 'transaction_lock'):
        if not hasattr(prov, a): raise core.HarnessError('C22: SQLiteProvider.%s is gone' % a)
    prov.pre_transaction_lock, prov.transaction_lock = w.locks
    w.points = pointset(w)
    w.cache_clearers = cache_clearers(w)
    _WORLD = w
    return w

def reset(w, rows=True):
    """fresh caches + fresh content of the only table that threads write"""
    for c in w.cache_clearers: c()
    if not rows: return
    w.raw.execute('BEGIN IMMEDIATE')
    w.raw.execute('delete from Scratch')
    w.raw.executemany('insert into Scratch (id, owner, v) values (?,?,?)', SCRATCH)
    w.raw.execute('COMMIT')

# ---- process-wide caches (found by reading the code; a missing one is a hard error) ---------------
ENTITY_CACHES = ('_find_sql_cache_', '_load_sql_cache_', '_batchload_sql_cache_', '_insert_sql_cache_',
                 '_update_sql_cache_', '_delete_sql_cache_')
COLLECTION_CACHES = ('cached_load_sql', 'cached_add_m2m_sql', 'cached_remove_m2m_sql', 'cached_count_sql',
                     'cached_empty_sql')

def _need(obj, name, what):
    if not hasattr(obj, name): raise core.HarnessError('C22: cache %s.%s not found - update the cache list' % (what, name))
    return getattr(obj, name)

def cache_clearers(w):
    from pony.orm import asttranslation, decompiling, ormtypes
    import pony.utils.utils as putils
    pcore, db = w.pcore, w.db
    out = []
    for mod, name in ((pcore, 'adapted_sql_cache'), (pcore, 'string2ast_cache'), (asttranslation, 'extractors_cache'),
                      (decompiling, 'ast_cache'), (ormtypes, 'raw_sql_cache'), (putils, 'lambda_args_cache')):
        d = _need(mod, name, mod.__name__)
        if not isinstance(d, dict): raise core.HarnessError('C22: %s.%s is not a dict any more' % (mod.__name__, name))
        out.append(d.clear)
    for name in ('_translator_cache', '_constructed_sql_cache', '_insert_cache'):
        out.append(_need(db, name, 'Database').clear)
    for entity in db.entities.values():
        for name in ENTITY_CACHES: out.append(_need(entity, name, entity.__name__).clear)
        _need(entity, '_cached_max_id_sql_', entity.__name__)
        out.append(lambda e=entity: setattr(e, '_cached_max_id_sql_', None))
        for attr in entity._attrs_:
            _need(attr, 'lazy_sql_cache', str(attr))
            out.append(lambda a=attr: setattr(a, 'lazy_sql_cache', None))
            if attr.is_collection:
                for name in COLLECTION_CACHES:
                    if hasattr(attr, name): out.append(lambda a=attr, n=name: setattr(a, n, None))
    return out

# ---- scheduling points: a fixed list of Pony code objects -----------------------------------------
DB_CACHES = ('_translator_cache', '_constructed_sql_cache')

def pointset(w):
    from pony.orm import asttranslation, decompiling, ormtypes
    pcore = w.pcore
    Q = _need(pcore, 'Query', 'pony.orm.core')
    ps = sched.PointSet()
    ps.add('Query._get_translator', _need(Q, '_get_translator', 'Query'), DB_CACHES, whole=True, keep_loops=True)
    for name in ('__init__', '_order_by', '_process_lambda', '_apply_kwargs', '_construct_sql_and_arguments', 'delete'):
        ps.add('Query.' + name, _need(Q, name, 'Query'), DB_CACHES)
    ps.add('adapt_sql', _need(pcore, 'adapt_sql', 'pony.orm.core'), ('adapted_sql_cache',), whole=True)
    ps.add('string2ast', _need(pcore, 'string2ast', 'pony.orm.core'), ('string2ast_cache',), whole=True)
    ps.add('decompile', _need(decompiling, 'decompile', 'pony.orm.decompiling'), ('ast_cache',), whole=True)
    ps.add('create_extractors', _need(asttranslation, 'create_extractors', 'pony.orm.asttranslation'), ('extractors_cache',), whole=True)
    ps.add('parse_raw_sql', _need(ormtypes, 'parse_raw_sql', 'pony.orm.ormtypes'), ('raw_sql_cache',), whole=True)
    # the names core.py / sqltranslation.py call must be the objects we trace (from-imports bind at import time)
    from pony.orm import sqltranslation
    for user in (pcore, sqltranslation):
        for name, mod in (('decompile', decompiling), ('create_extractors', asttranslation)):
            if getattr(user, name, None) is not getattr(mod, name):
                raise core.HarnessError('C22: %s.%s is not %s.%s' % (user.__name__, name, mod.__name__, name))
    return ps

# ---- the queries the threads run -------------------------------------------------------------------
# Every function is module level: all threads execute the same generator / lambda code objects and the
# same strings, so they compete for the same keys of every cache. Each returns JSON-able data.
def q_slice(w, lo, hi):
    return sorted(w.orm.select(p.name[lo:hi] for p in w.Person))

def q_getattr(w, a):
    return sorted(w.orm.select(getattr(p, a) for p in w.Person))

def q_filter_slice(w, lo, hi, s):
    return sorted(p.id for p in w.Person.select().filter(lambda p: p.name[lo:hi] == s))

def q_where_getattr(w, a, v):
    return sorted(p.id for p in w.Person.select().where(lambda p: getattr(p, a) == v))

def q_string(w, x):
    Person = w.Person
    return list(w.orm.select("p.name for p in Person if p.age > x").order_by("p.name"))

def q_string_lambda(w, x):
    return [p.id for p in w.Person.select("lambda p: p.age > x").order_by("lambda p: p.nick")]

def q_db_select(w, x):
    return list(w.db.select("name from Person where age > $x order by name"))

def q_by_sql(w, x):
    return sorted(p.id for p in w.Person.select_by_sql("select * from Person where age < $(x + 1)"))

def q_raw_sql(w, x):
    from pony.orm import raw_sql
    return sorted(w.orm.select(p.name for p in w.Person if raw_sql("p.age > $x")))

def q_raw_sql2(w, x, y):
    from pony.orm import raw_sql
    return sorted(w.orm.select(p.name for p in w.Person if raw_sql("p.age > $x and p.score < $(y * 2)")))

def q_hybrid(w, n):
    return sorted(w.orm.select(p.name for p in w.Person if p.older(n)))

def q_hybrid_slice(w, lo, hi, n):
    return sorted(w.orm.select(p.nick[lo:hi] for p in w.Person if p.older(n)))

def q_hybrid_global(w):
    return sorted(w.orm.select(p.label for p in w.Person if p.senior()))

def q_kwargs(w, a):
    return [p.id for p in w.Person.select().filter(age=a).order_by(w.Person.name)]

def q_kwargs_noorder(w, a):
    return sorted(p.id for p in w.Person.select().order_by(w.Person.nick).filter(score=a).order_by(None))

def q_order_numbers(w, x):
    return list(w.orm.select((p.nick, p.age) for p in w.Person if p.score >= x).order_by(2, 1))

def q_count(w, x):
    q = w.orm.select(p for p in w.Person if p.age > x)
    return [q.count(), w.orm.select(p.age for p in w.Person if p.score > x).sum()]

def q_getattr(w, a):
    return sorted(w.orm.select(getattr(p, a) for p in w.Person))

def q_filter_slice(w, lo, hi, s):
    return sorted(p.id for p in w.Person.select().filter(lambda p: p.name[lo:hi] == s))

def q_where_getattr(w, a, v):
    return sorted(p.id for p in w.Person.select().where(lambda p: getattr(p, a) == v))

def q_string(w, x):
    Person = w.Person
    return list(w.orm.select("p.name for p in Person if p.age > x").order_by("p.name"))

def q_string_lambda(w, x):
    return [p.id for p in w.Person.select("lambda p: p.age > x").order_by("lambda p: p.nick")]

def q_db_select(w, x):
    return list(w.db.select("name from Person where age > $x order by name"))

def q_by_sql(w, x):
    return sorted(p.id for p in w.Person.select_by_sql("select * from Person where age < $(x + 1)"))

def q_raw_sql(w, x):
    from pony.orm import raw_sql
    return sorted(w.orm.select(p.name for p in w.Person if raw_sql("p.age > $x")))

def q_raw_sql2(w, x, y):
    from pony.orm import raw_sql
    return sorted(w.orm.select(p.name for p in w.Person if raw_sql("p.age > $x and p.score < $(y * 2)")))

def q_hybrid(w, n):
    return sorted(w.orm.select(p.name for p in w.Person if p.older(n)))

def q_hybrid_slice(w, lo, hi, n):
    return sorted(w.orm.select(p.nick[lo:hi] for p in w.Person if p.older(n)))

def q_hybrid_global(w):
    return sorted(w.orm.select(p.label for p in w.Person if p.senior()))

def q_kwargs(w, a):
    return [p.id for p in w.Person.select().filter(age=a).order_by(w.Person.name)]

def q_kwargs_noorder(w, a):
    return sorted(p.id for p in w.Person.select().order_by(w.Person.nick).filter(score=a).order_by(None))

def q_order_numbers(w, x):
    return list(w.orm.select((p.nick, p.age) for p in w.Person if p.score >= x).order_by(2, 1))

def q_count(w, x):
    q = w.orm.select(p for p in w.Person if p.age > x)
    return [q.count(), q.max(), w.orm.select(p.age for p in w.Person if p.score > x).sum()] if False else \
           [q.count(), w.orm.select(p.age for p in w.Person if p.score > x).sum()]

def q_get(w, name):
    p = w.Person.get(name=name)
    return None if p is None else [p.id, p.grp.name]

def q_page(w, lo, hi):
    return [p.id for p in w.orm.select(p for p in w.Person).order_by(w.Person.id)[lo:hi]]

def q_delete(w, owner, k):
    n = w.orm.select(s for s in w.Scratch if s.owner == owner and s.v > k).delete(bulk=True)
    return [n, sorted(w.orm.select(s.v for s in w.Scratch if s.owner == owner))]

def q_collection(w, gid, x):
    g = w.Grp[gid]
    return [sorted(p.name for p in g.people), g.people.count(),
            [p.id for p in g.people.select(lambda p: p.age > x).order_by(lambda p: p.name)]]

QUERIES = dict((f.__name__, f) for f in (
    q_slice, q_getattr, q_filter_slice, q_where_getattr, q_string, q_string_lambda, q_db_select, q_by_sql,
    q_raw_sql, q_raw_sql2, q_hybrid, q_hybrid_slice, q_hybrid_global, q_kwargs, q_kwargs_noorder, q_order_numbers, q_count,
    q_get, q_page, q_delete, q_collection))

def run_program(w, program):
    """program: list of [query name, args...]; each step in its own db_session; what Pony raises is
    part of the observable result."""
    import traceback
    out = []
    for step in program:
        f = QUERIES[step[0]]
        try:
            with w.orm.db_session:
                out.append(['ok', core.jsonable(f(w, *step[1:]))])
        except Exception as e:
            out.append(['exc', type(e).__name__, where(e)])
    return out

def where(e):
    """innermost frame inside pony: 'function: source line' (deterministic, no ids)"""
    import traceback
    tb = traceback.extract_tb(e.__traceback__)
    for fr in reversed(tb):
        if os.sep + 'pony' + os.sep in fr.filename:
            return '%s: %s' % (fr.name, (fr.line or '').strip())
    return '?'
