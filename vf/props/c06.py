"""C06 Values reach the database unchanged: parameters, literals, LIKE patterns, identifiers.

Four bounded-exhaustive parts (DESIGN section 3, C06):
 (a) bind    every order/repetition pattern of <= 4 (thorough: 5) parameter occurrences over 3 keys x 4 AST
             templates x 5 paramstyles x the SQL builders of SQLite/PostgreSQL/MySQL/Oracle: built by the
             real builder, bound by the PEP 249 binder model, executed on SQLite - every occurrence must
             receive its own value;
 (b) literal every string of length <= 3 (thorough: 4) over {' " \\ % _ ! a e-acute newline} + numeric/date/time/bytes/
             bool boundary values through Value / SQLiteValue / PGValue / MySQLValue x 5 paramstyles
             (driver %-interpolation applied for format/pyformat). SQLiteValue: `SELECT <literal>` is
             executed and compared with the value (dates/times: with what the provider's own converter
             binds as parameter). Others: lexed under the DM lexical model (standard SQL / MySQL default
             sql_mode) and decoded;
 (c) like    every pattern of length <= 3 (thorough: 4) over {% _ ! a} as constant, parameter and column in
             startswith / endswith / in / not in, executed by real Pony queries on SQLite against every
             subject string of the same bound: result must equal Python's;
 (d) ident   every name of length <= 2 (quick) / 3 (thorough) over {" ` . space ; a} as entity, attribute,
             table, column, fk column, m2m table, m2m column and index name: schema creation + CRUD on
             SQLite must succeed with the same statement-kind sequence as a plain name and the schema must
             contain exactly that name; quote_name() output must re-lex to the name under each dialect's
             quote character.
"""
import itertools, sqlite3, datetime, decimal, json, re
from vf import core
from vf.engines import dm
from vf.props import _c06_lib as lib

LEVEL = 'exploration'
STYLES = ('qmark', 'format', 'numeric', 'named', 'pyformat')

# =========================================================================================================
# providers
_PROV = {}
def provider(name):
    """real provider objects: 'sqlite' (bound to :memory:), 'postgres'/'mysql'/'oracle' (capture)."""
    if name not in _PROV:
        if name == 'sqlite':
            from pony import orm
            db = orm.Database(); db.bind('sqlite', ':memory:')
        else:
            db = dm.capture_database(name)
        _PROV[name] = db.provider
    return _PROV[name]
PROVIDERS = ('sqlite', 'postgres', 'mysql', 'oracle')

_con = None
def scratch():
    global _con
    if _con is None: _con = sqlite3.connect(':memory:')
    return _con

# =========================================================================================================
# (a) placeholder binding
KEYS = [('a', None, None), ('t', 0, None), ('t', 1, None)]
VALUES = {'a': 1, 't': (2, 3)}
VAL_OF = [1, 2, 3]
DECOY = "it's %s ? :1 :p1 %(p1)s 100%"
TEMPLATES = ('list', 'sum', 'decoy', 'where')

def build_ast(tname, pattern):
    slots = [['PARAM', KEYS[k]] for k in pattern]
    vals = [VAL_OF[k] for k in pattern]
    if tname == 'list':
        return ['SELECT', ['ALL'] + slots], [tuple(vals)]
    if tname == 'sum':
        expr = ['MUL', slots[0], ['VALUE', 1]]
        for i in range(1, len(slots)): expr = ['ADD', expr, ['MUL', slots[i], ['VALUE', 10 ** i]]]
        return ['SELECT', ['ALL', expr]], [(sum(v * 10 ** i for i, v in enumerate(vals)),)]
    if tname == 'decoy':
        cols, exp = [], []
        for s, v in zip(slots, vals): cols += [['VALUE', DECOY], s]; exp += [DECOY, v]
        return ['SELECT', ['ALL'] + cols], [tuple(exp)]
    if tname == 'where':
        ast = ['SELECT', ['ALL', slots[0]]]
        if len(slots) > 1: ast.append(['WHERE'] + [['EQ', s, ['VALUE', v]] for s, v in zip(slots[1:], vals[1:])])
        return ast, [(vals[0],)]
    raise AssertionError(tname)

_bindmemo = {}
def bind_check(pname, style, tname, pattern):
    """-> None if every occurrence received its own value, else (kind, detail)."""
    k = (pname, style, tname, tuple(pattern))
    if k in _bindmemo: return _bindmemo[k]
    prov = provider(pname)
    ast, expected = build_ast(tname, pattern)
    prov.paramstyle = style
    res = None
    detail = dict(builder=pname, style=style, template=tname, pattern=list(pattern), expected=expected)
    try:
        try:
            sql, adapter = prov.ast2sql(ast)
            args = adapter(VALUES)
        finally:
            del prov.__dict__['paramstyle']
        detail.update(sql=sql, args=args)
        q, a = dm.bind_placeholders(sql, args, style)
        if style == 'named':
            # drivers with named binds (cx_Oracle) reject bind values that no placeholder uses
            used = set(re.findall(r':([A-Za-z_]\w*)', dm._LIT.sub('', sql)))
            if used != set(args): raise ValueError('bind names supplied %s, placeholders used %s' % (sorted(args), sorted(used)))
        if pname == 'oracle': q = re.sub(r'\s+FROM DUAL\b', ' ', q)
        rows = scratch().execute(q, a).fetchall()
        detail['rows'] = rows
        if rows != expected: res = ('wrong-value', detail)
    except Exception as e:
        detail['error'] = '%s: %s' % (type(e).__name__, e)
        res = ('error', detail)
    _bindmemo[k] = res
    return res

def rgs(pattern):
    m, out = {}, []
    for k in pattern:
        if k not in m: m[k] = 'abc'[len(m)]
        out.append(m[k])
    return ''.join(out)

def bind_part(sub, styles, maxocc=4):
    patterns = [p for n in range(1, maxocc + 1) for p in itertools.product(range(3), repeat=n)]
    for pname in PROVIDERS:
        for style in styles:
            for tname in TEMPLATES:
                for pat in patterns:
                    r = bind_check(pname, style, tname, pat)
                    sub.count('evaluations'); sub.count('bind_cases')
                    if len(set(pat)) < len(pat) or list(pat) != sorted(pat): sub.count('distinct_nontrivial')
                    if r is None: continue
                    kind = r[0]
                    # shrink: drop occurrences while it still fails the same way
                    p = list(pat); changed = True
                    while changed:
                        changed = False
                        for i in range(len(p)):
                            if len(p) == 1: break
                            c = p[:i] + p[i + 1:]
                            rr = bind_check(pname, style, tname, c)
                            if rr is not None and rr[0] == kind: p, changed = c, True; break
                    bad_styles = [s for s in STYLES if (bind_check(pname, s, tname, p) or (None,))[0] == kind]
                    bad_builders = [b for b in PROVIDERS if (bind_check(b, style, tname, p) or (None,))[0] == kind]
                    sig = 'bind|builders=%s|styles=%s|template=%s|pattern=%s|%s' % ('+'.join(bad_builders), '+'.join(bad_styles), tname, rgs(p), kind)
                    sub.violation(sig, dict(part='bind', builder=pname, style=style, template=tname, pattern=list(pat), minimal=p, detail=r[1]),
                                  '%s builder, %s: occurrences %s -> %s' % (pname, style, rgs(pat), json.dumps(r[1], default=repr)[:300]))
    if styles == ['pyformat']:
        r = build_ast('decoy', (1, 0, 1)); prov = provider('postgres'); prov.paramstyle = 'pyformat'
        try: sql, ad = prov.ast2sql(r[0]); sub.sample(dict(part='bind', sql=sql, args=ad(VALUES), expected_row=r[1]))
        finally: del prov.__dict__['paramstyle']

# =========================================================================================================
# (b) inline literals
STR_ALPHABET = ["'", '"', '\\', '%', '_', '!', 'a', '\u00e9', '\n']
D = decimal.Decimal
def other_values():
    dt, d, td = datetime.datetime, datetime.date, datetime.timedelta
    return [None, True, False,
            0, 1, -1, 2 ** 31 - 1, -2 ** 31, 2 ** 31, 2 ** 63 - 1, -2 ** 63, 2 ** 63, -2 ** 63 - 1, 2 ** 64, 10 ** 30,
            0.0, -0.0, 1.5, -2.25, 0.1, 1e-7, 1e22, 5e-324, 2.2250738585072014e-308, 1.7976931348623157e308,
            float('inf'), float('-inf'), float('nan'),
            D('0'), D('0.1'), D('-1.50'), D('1E+3'), D('1E-10'), D('123456789012345678901234567890.123456789'),
            D('NaN'), D('Infinity'), D('-Infinity'),
            d(1, 1, 1), d(999, 12, 31), d(1000, 1, 1), d(1999, 12, 31), d(2020, 2, 29), d(9999, 12, 31),
            dt(1, 1, 1), dt(999, 12, 31, 23, 59, 59, 999999), dt(2020, 2, 29, 23, 59, 59), dt(2020, 2, 29, 23, 59, 59, 1),
            dt(2020, 2, 29, 0, 0, 0, 999999), dt(9999, 12, 31, 23, 59, 59, 999999),
            td(0), td(seconds=1), td(microseconds=1), td(microseconds=-1), td(seconds=-1, microseconds=-500000),
            td(days=1), td(days=100, seconds=1), td(days=-1), td(hours=3, minutes=4, seconds=5, microseconds=6),
            td(days=-3, hours=-4, microseconds=-7), td(days=999999),
            datetime.time(1, 2, 3), datetime.time(23, 59, 59, 999999),
            b'', b'\x00', b"'", b'\xff\x00a\\']

COARSE = {'structure': 'does-not-denote-the-value', 'different-value': 'does-not-denote-the-value'}
def coarse(kind): return COARSE.get(kind, kind)

def vclass(v):
    if nonfinite(v): return 'number:inf/nan'
    if v is None: return 'None'
    if isinstance(v, bool): return 'bool'
    if isinstance(v, int): return 'int:64-bit' if -2 ** 63 <= v < 2 ** 63 else 'int:beyond-64-bit'
    if isinstance(v, float): return 'float:finite' if v == v and abs(v) != float('inf') else 'float:inf/nan'
    if isinstance(v, D): return 'Decimal:finite' if v.is_finite() else 'Decimal:inf/nan'
    if isinstance(v, datetime.datetime): return 'datetime:year<1000' if v.year < 1000 else 'datetime'
    if isinstance(v, datetime.date): return 'date:year<1000' if v.year < 1000 else 'date'
    if isinstance(v, datetime.timedelta):
        return 'timedelta:' + ('negative' if v < datetime.timedelta(0) else 'non-negative') + (',microseconds' if v.microseconds else '')
    if isinstance(v, datetime.time): return 'time'
    if isinstance(v, bytes): return 'bytes'
    return type(v).__name__

def value_classes():
    from pony.orm import sqlbuilding
    from pony.orm.dbproviders import sqlite, postgres, mysql
    return [('Value', sqlbuilding.Value, 'standard'), ('SQLiteValue', sqlite.SQLiteValue, 'sqlite'),
            ('PGValue', postgres.PGValue, 'postgres'), ('MySQLValue', mysql.MySQLValue, 'mysql')]

def nonfinite(v):
    if isinstance(v, float): return v != v or abs(v) == float('inf')
    if isinstance(v, D): return not v.is_finite()
    return False

def same_float(a, b):
    return isinstance(a, (int, float)) and isinstance(b, (int, float)) and not isinstance(a, bool) and float(a) == float(b)

def sqlite_expected(v):
    """what the SQLite engine must echo for SELECT <literal>: the value itself; for date/time types the
    thing the provider's own converter binds when the same value is passed as a parameter."""
    if isinstance(v, (datetime.date, datetime.timedelta, datetime.time)):
        conv = provider('sqlite').get_converter_by_py_type(type(v))
        return scratch().execute('select ?', (conv.py2sql(v),)).fetchone()[0]
    return v

_litmemo = {}
def lit_check(cname, style, v):
    """-> None | ('refused', ..) allowed refusal | (violation kind, detail)"""
    key = (cname, style, repr(v))
    if key in _litmemo: return _litmemo[key]
    cls, dialect = [(c, d) for n, c, d in value_classes() if n == cname][0]
    detail = dict(value_class=cname, style=style, value=repr(v))
    def done(r): _litmemo[key] = r; return r
    try: text = str(cls(style, v))
    except BaseException as e:
        detail['error'] = type(e).__name__
        return done(('refused-str' if isinstance(v, str) else 'refused', detail))
    detail['literal'] = text
    if nonfinite(v): return done(('nonfinite-rendered', detail))
    sql = 'SELECT ' + text
    if style in ('format', 'pyformat'):
        try: sql, _ = dm.bind_placeholders(sql, () if style == 'format' else {}, style)
        except (dm.Undecided, IndexError, KeyError) as e:
            detail['driver'] = str(e)
            return done(('driver-rejects', detail))
    detail['reaches_database'] = sql
    lit = sql[7:]
    if dialect == 'sqlite':
        try: rows = scratch().execute(sql).fetchall()
        except sqlite3.Error as e:
            detail['error'] = '%s: %s' % (type(e).__name__, e)
            return done(('database-rejects', detail))
        if len(rows) != 1 or len(rows[0]) != 1:
            detail['rows'] = rows; return done(('structure', detail))
        got = rows[0][0]; detail['echo'] = repr(got)
        exp = sqlite_expected(v); detail['expected_echo'] = repr(exp)
        if isinstance(v, bool): ok = got == int(v) and type(got) is int
        elif isinstance(v, int) and not -2 ** 63 <= v < 2 ** 63:
            ok = isinstance(got, float) and got == v      # SQLite has no such integers: the REAL must at least be exact
        elif isinstance(v, D): ok = same_float(got, float(v))
        elif isinstance(v, float) or isinstance(exp, float): ok = same_float(got, exp) and (isinstance(got, float) or isinstance(exp, int) or float(got) == exp)
        else: ok = got == exp and type(got) is type(exp)
        if not ok and isinstance(v, (datetime.date, datetime.timedelta)):
            return done(('literal-differs-from-bound-parameter', detail))
        return done(None if ok else ('different-value', detail))
    # ---- lexical model
    try: dec = lib.decode_literal(lit, mysql=(dialect == 'mysql'), postgres=(dialect == 'postgres'))
    except lib.LexError as e:
        detail['lexer'] = str(e)
        return done(('structure', detail))
    detail['denotes'] = repr(dec)
    if v is None: ok = dec == ('null',)
    elif isinstance(v, bool): ok = dec == ('bool', v) or dec == ('num', D(int(v)))
    elif isinstance(v, (int, D)): ok = dec[0] == 'num' and dec[1] == D(v)
    elif isinstance(v, float): ok = dec[0] == 'num' and float(dec[1]) == v
    elif isinstance(v, str): ok = dec == ('str', v)
    elif isinstance(v, bytes): ok = dec == ('bytes', v)
    elif isinstance(v, datetime.datetime): ok = dec == ('datetime', v)
    elif isinstance(v, datetime.date): ok = dec == ('date', v)
    elif isinstance(v, datetime.timedelta): ok = dec == ('interval', v)
    else: ok = False
    if ok and isinstance(v, str) and dialect in ('standard', 'postgres'):
        # self-check of the standard-SQL lexical model against a real engine with the same rules
        got = scratch().execute(sql).fetchall()
        if got != [(v,)]: raise core.HarnessError('lexical model and SQLite disagree on %r' % lit)
    return done(None if ok else ('different-value', detail))

def shrink_str(cname, style, v, kind):
    changed = True
    while changed:
        changed = False
        for i in range(len(v)):
            c = v[:i] + v[i + 1:]
            r = lit_check(cname, style, c)
            if r is not None and coarse(r[0]) == kind: v, changed = c, True; break
    return v

def lit_part(sub, strings, cnames):
    values = strings + (other_values() if strings and strings[0] == '' else [])
    for cname in cnames:
        for style in STYLES:
            for v in values:
                r = lit_check(cname, style, v)
                sub.count('evaluations'); sub.count('literal_cases')
                if not isinstance(v, str) or any(c in v for c in "'\"\\%\n"): sub.count('distinct_nontrivial')
                if r is None: sub.count('literal_ok'); continue
                kind = coarse(r[0])
                if kind == 'refused': sub.count('literal_refused:%s:%s' % (cname, vclass(v))); continue
                if isinstance(v, str):
                    m = shrink_str(cname, style, v, kind)
                    label = 'str:' + json.dumps(m)
                    rep = m
                else:
                    label = vclass(v); rep = v
                def k_of(cn, st): return coarse((lit_check(cn, st, rep) or (None,))[0])
                bad = [s for s in STYLES if k_of(cname, s) == kind]
                badc = [n for n, _, _ in value_classes() if k_of(n, style) == kind]
                sig = 'literal|%s|styles=%s|%s|%s' % ('all value classes' if len(badc) == 4 else '+'.join(badc),
                                                      'all' if len(bad) == len(STYLES) else '+'.join(bad), label, kind)
                sub.violation(sig, dict(part='literal', value_class=cname, style=style, value=repr(v), minimal=repr(rep), detail=r[1]),
                              '%s(%r, %s) -> %s' % (cname, style, repr(v)[:60], json.dumps(r[1], default=repr, ensure_ascii=False)[:300]))
    if strings and strings[0] == '' and cnames[0] == 'MySQLValue':
        sub.sample(dict(part='literal', value="a'%\\n"[:3], MySQLValue_format=str(value_classes()[3][1]('format', "a'%"))))

# =========================================================================================================
# (c) LIKE
LIKE_ALPHABET = ['%', '_', '!', 'a']
OPS = {'startswith': ('x.s.startswith({0})', lambda s, p: s.startswith(p)),
       'endswith': ('x.s.endswith({0})', lambda s, p: s.endswith(p)),
       'in': ('{0} in x.s', lambda s, p: p in s),
       'not in': ('{0} not in x.s', lambda s, p: p not in s)}

def like_db(maxlen=3):
    from pony import orm
    db = orm.Database()
    class S(db.Entity):
        id = orm.PrimaryKey(int)
        s = orm.Optional(str)
    class P(db.Entity):
        id = orm.PrimaryKey(int)
        s = orm.Optional(str)
        t = orm.Optional(str)
    db.bind('sqlite', ':memory:')
    db.generate_mapping(create_tables=True)
    strs = lib.strings_over(LIKE_ALPHABET, maxlen)
    with orm.db_session:
        con = db.get_connection()
        con.executemany('insert into S (id, s) values (?, ?)', list(enumerate(strs)))
        con.executemany('insert into P (id, s, t) values (?, ?, ?)',
                        [(i * len(strs) + j, s, t) for i, s in enumerate(strs) for j, t in enumerate(strs)])
    return db, strs

def like_part(sub, opname, maxlen=3):
    from pony.orm import db_session, select
    db, strs = like_db(maxlen)
    S, P = db.S, db.P
    n = len(strs)
    tmpl, pyf = OPS[opname]
    got = {}      # (form, pattern) -> set of subjects selected
    refused = {}
    for form in ('const', 'param', 'column'):
        if form == 'column':
            try:
                with db_session:
                    ids = select('x.id for x in P if ' + tmpl.format('x.t'), {'P': P})[:]
                sel = {}
                for i in ids: sel.setdefault(strs[i % n], set()).add(strs[i // n])
                for p in strs: got[(form, p)] = sel.get(p, set())
            except Exception as e:
                sub.count('like_refused:%s:%s:%s' % (opname, form, type(e).__name__))
            continue
        for p in strs:
            try:
                with db_session:
                    if form == 'const': ids = select('x.id for x in S if ' + tmpl.format(repr(p)), {'S': S})[:]
                    else: ids = select('x.id for x in S if ' + tmpl.format('p'), {'S': S}, {'p': p})[:]
                got[(form, p)] = set(strs[i] for i in ids)
            except Exception as e:
                sub.count('like_refused:%s:%s:%s' % (opname, form, type(e).__name__))
    def wrong(form, p, s):
        g = got.get((form, p))
        return g is not None and ((s in g) != pyf(s, p))
    def bad_subject(form, p):
        for s in strs:
            if wrong(form, p, s): return s
        return None
    for (form, p), g in sorted(got.items()):
        sub.count('like_queries')
        nbad = 0
        for s in strs:
            sub.count('evaluations')
            if any(c in p for c in '%_!'): sub.count('distinct_nontrivial')
            if (s in g) != pyf(s, p): nbad += 1
        if not nbad: continue
        # minimal failing shape: shortest sub-pattern (by deleting characters) that still selects wrongly;
        # every shorter string was enumerated too, so this is a table look-up
        mp = p; changed = True
        while changed:
            changed = False
            for cp in [mp[:i] + mp[i + 1:] for i in range(len(mp))]:
                if bad_subject(form, cp) is not None: mp, changed = cp, True; break
        ms = bad_subject(form, mp)
        forms = [f for f in ('const', 'param', 'column') if bad_subject(f, mp) is not None]
        s0 = bad_subject(form, p)
        sig = 'like|%s|forms=%s|minimal pattern consists of %s' % (opname, '+'.join(forms), json.dumps(''.join(sorted(set(mp)))))
        sub.violation(sig, dict(part='like', op=opname, form=form, pattern=p, subject=s0, minimal_pattern=mp, minimal_subject=ms,
                                selected=(s0 in g), python=pyf(s0, p), wrong_subjects=nbad),
                      '%s (%s): pattern %r subject %r: SQL says %s, Python says %s (%d subjects wrong)' % (opname, form, p, s0, s0 in g, pyf(s0, p), nbad))
    if opname == 'in':
        with db_session:
            select("x.id for x in S if '!%_' in x.s", {'S': S})[:]
            sub.sample(dict(part='like', query="'!%_' in x.s", sql=db.last_sql))

# =========================================================================================================
# (d) identifiers
IDENT_ALPHABET = ['"', '`', '.', ' ', ';', 'a']
POSITIONS = ('entity', 'attr', 'table', 'column', 'fk_column', 'm2m_table', 'm2m_column', 'index')
STMT_LOG = []
class LogCursor(sqlite3.Cursor):
    def execute(self, sql, args=None):
        STMT_LOG.append(sql)
        return sqlite3.Cursor.execute(self, sql) if args is None else sqlite3.Cursor.execute(self, sql, args)
    def executemany(self, sql, args):
        STMT_LOG.append(sql)
        return sqlite3.Cursor.executemany(self, sql, args)
class LogConnection(sqlite3.Connection):
    def cursor(self, factory=None): return sqlite3.Connection.cursor(self, LogCursor)
    def execute(self, sql, *a):
        STMT_LOG.append(sql)
        return sqlite3.Connection.execute(self, sql, *a)

def stmt_kind(sql):
    w = sql.strip().split()
    k = w[0].upper() if w else ''
    if k == 'CREATE': k = ' '.join(x.upper() for x in w[:3 if w[1].upper() == 'UNIQUE' else 2])
    return k

def ident_run(pos, name):
    """-> dict(outcome=..., kinds=[...], results=[...], schema_ok=bool) ; outcome in
    'ok' | 'refused:<phase>:<exc>' | 'db-error:<phase>:<exc>'"""
    from pony import orm
    from pony.orm import PrimaryKey, Optional, Set, db_session
    from pony.orm.dbapiprovider import DBException
    del STMT_LOG[:]
    out = dict(kinds=None, results=None)
    phase = 'define'
    try:
        db = orm.Database()
        ename = ('E' + name) if pos == 'entity' else 'Ent'   # entity names must start with a capital letter
        vname = name if pos == 'attr' else 'v'
        attrs = {'id': PrimaryKey(int),
                 vname: Optional(str, column=(name if pos == 'column' else None), index=(name if pos == 'index' else True)),
                 'bs': Set('Oth', reverse='as_', table=(name if pos == 'm2m_table' else None), column=(name if pos == 'm2m_column' else None)),
                 'cs': Set('Oth', reverse='a1')}
        if pos == 'table': attrs['_table_'] = name
        Ent = type(ename, (db.Entity,), attrs)
        Oth = type('Oth', (db.Entity,), {'id': PrimaryKey(int), 'as_': Set(ename, reverse='bs'),
                                         'a1': Optional(ename, reverse='cs', column=(name if pos == 'fk_column' else None))})
        phase = 'bind'
        db.bind('sqlite', ':memory:', factory=LogConnection)
        phase = 'create_tables'
        db.generate_mapping(create_tables=True)
        res = []
        phase = 'insert'
        with db_session:
            a = Ent(id=1, **{vname: 'x'}); b = Oth(id=1, a1=a); a.bs.add(b)
        phase = 'select+update'
        with db_session:
            res.append(sorted(o.id for o in Ent.select(**{vname: 'x'})))
            res.append(sorted(orm.select(o.id for o in Ent if getattr(o, vname) == 'x')))
            setattr(Ent[1], vname, 'y')
        phase = 'read collections'
        with db_session:
            a = Ent[1]
            res.append(getattr(a, vname)); res.append(sorted(o.id for o in a.bs)); res.append(sorted(o.id for o in a.cs))
            res.append(Ent.get(**{vname: 'y'}).id)
            res.append(sorted(orm.select(o.id for o in Oth if o.a1 == a)))
            a.bs.remove(Oth[1])
        phase = 'delete'
        with db_session:
            res.append(len(Ent[1].bs)); Oth[1].delete()
        with db_session: Ent[1].delete()
        with db_session: res.append(Ent.select().count())
        phase = 'inspect schema'
        with db_session:
            con = db.get_connection()
            master = sqlite3.Connection.execute(con, 'select type, name, tbl_name from sqlite_master').fetchall()
            names = set((t, n) for t, n, tb in master)
            def cols(tb): return [r[1] for r in sqlite3.Connection.execute(con, 'select * from pragma_table_info(?)', (tb,)).fetchall()]
            if pos == 'entity': ok = ('table', ename) in names
            elif pos == 'table': ok = ('table', name) in names
            elif pos == 'm2m_table': ok = ('table', name) in names
            elif pos in ('attr', 'column'): ok = name in cols(Ent._table_)
            elif pos == 'fk_column': ok = name in cols(Oth._table_)
            elif pos == 'm2m_column': ok = any(name in cols(n) for t, n in names if t == 'table' and n not in (Ent._table_, Oth._table_))
            else: ok = ('index', name) in names
            out['schema_ok'] = ok
            out['schema'] = sorted(names)
        out['results'] = res
        out['outcome'] = 'ok'
    except Exception as e:
        kind = 'db-error' if isinstance(e, (DBException, sqlite3.Error)) else 'refused'
        out['outcome'] = '%s:%s:%s' % (kind, phase, type(e).__name__)
        out['error'] = str(e)[:200]
    out['kinds'] = [stmt_kind(s) for s in STMT_LOG]
    out['statements'] = list(STMT_LOG)
    return out

ALLOWED_KINDS = {'CREATE TABLE', 'CREATE INDEX', 'CREATE UNIQUE INDEX', 'INSERT', 'SELECT', 'UPDATE', 'DELETE', 'BEGIN',
                 'COMMIT', 'ROLLBACK', 'PRAGMA', 'RELEASE', 'SAVEPOINT'}
_identmemo = {}
def ident_check(pos, name):
    k = (pos, name)
    if k in _identmemo: return _identmemo[k]
    base = _identmemo.get((pos, None))
    if base is None: base = _identmemo[(pos, None)] = ident_run(pos, 'zz')
    if base['outcome'] != 'ok' or not base.get('schema_ok'):
        raise core.HarnessError('identifier baseline broken at %s: %s %s' % (pos, base['outcome'], base.get('error')))
    r = ident_run(pos, name)
    detail = dict(position=pos, name=name, outcome=r['outcome'], error=r.get('error'), statements=r['statements'][:12])
    if r['outcome'].startswith('refused'): res = ('refused', r['outcome'], detail)
    elif r['outcome'].startswith('db-error'): res = ('violation', 'database rejects generated SQL (%s)' % r['outcome'].split(':')[1], detail)
    elif r['results'] != base['results']: res = ('violation', 'CRUD results differ', dict(detail, results=r['results'], expected=base['results']))
    elif r['kinds'] != base['kinds'] or not set(r['kinds']) <= ALLOWED_KINDS:
        res = ('violation', 'statement kinds differ', dict(detail, kinds=r['kinds'], expected=base['kinds']))
    elif not r.get('schema_ok'): res = ('violation', 'schema does not contain the name', dict(detail, schema=r.get('schema')))
    else: res = None
    _identmemo[k] = res
    return res

def ident_part(sub, pos, names):
    for name in names:
        r = ident_check(pos, name)
        sub.count('evaluations'); sub.count('ident_schemas')
        if any(c in name for c in '"`.; '): sub.count('distinct_nontrivial')
        if r is None: sub.count('ident_ok'); continue
        if r[0] == 'refused': sub.count('ident_' + r[1]); continue
        what = r[1]
        m = name; changed = True
        while changed:
            changed = False
            for i in range(len(m)):
                c = m[:i] + m[i + 1:]
                if not c: continue
                rr = ident_check(pos, c)
                if rr is not None and rr[0] == 'violation' and rr[1] == what: m, changed = c, True; break
        badpos = [p for p in POSITIONS if (ident_check(p, m) or (None, None))[:2] == ('violation', what)]
        sig = 'ident|positions=%s|name=%s|%s' % ('all' if len(badpos) == len(POSITIONS) else '+'.join(badpos), json.dumps(m), what)
        sub.violation(sig, dict(part='ident', position=pos, name=name, minimal=m, detail=r[2]),
                      '%s name %r: %s: %s' % (pos, name, what, json.dumps(r[2], default=repr)[:300]))

DIALECT_QUOTE = {'sqlite': '"', 'postgres': '"', 'oracle': '"', 'mysql': '`'}   # MySQL default sql_mode: "..." is a string
def quote_part(sub, names):
    for pname in PROVIDERS:
        prov = provider(pname)
        qc = DIALECT_QUOTE[pname]       # the dialect's rule, not what the provider believes
        for name in names:
            for arg in (name, (name, 'a' + name)):
                sub.count('evaluations'); sub.count('quote_name_cases')
                if any(c in name for c in '"`.; '): sub.count('distinct_nontrivial')
                want = [arg] if isinstance(arg, str) else list(arg)
                try: text = prov.quote_name(arg)
                except Exception as e:
                    sub.count('quote_name_refused:%s:%s' % (pname, type(e).__name__)); continue
                problem = None
                if pname == 'oracle' and any('"' in w for w in want):
                    problem = 'not refused: Oracle identifiers cannot contain a double quote at all (no escape exists)'
                else:
                    try:
                        got = lib.lex_quoted_name(text, qc)
                        if got != want: problem = 'does not re-lex to the name: %r' % (got,)
                    except lib.LexError as e: problem = 'does not re-lex to the name: %s' % e
                if problem:
                    sig = 'quote_name|%s|%s|%s' % (pname, 'name contains ' + qc if qc in name else 'name', problem.split(':')[0][:60])
                    sub.violation(sig, dict(part='quote', provider=pname, name=arg if isinstance(arg, str) else list(arg), output=text),
                                  '%s.quote_name(%r) -> %s: %s' % (pname, arg, text, problem))

# =========================================================================================================
def worker(job):
    sub = core.Sub()
    kind = job[0]
    if kind == 'bind': bind_part(sub, job[1], job[2])
    elif kind == 'lit': lit_part(sub, job[1], job[2])
    elif kind == 'like': like_part(sub, job[1], job[2])
    elif kind == 'ident': ident_part(sub, job[1], job[2])
    elif kind == 'quote': quote_part(sub, job[1])
    return sub.dump()

def run(ctx):
    from vf import stubs
    stubs.install_all()
    import pony.orm
    L = 3 if ctx.quick else 4
    strs = lib.strings_over(STR_ALPHABET, L)
    idn = [s for s in lib.strings_over(IDENT_ALPHABET, 2 if ctx.quick else 3) if s]
    jobs = [('bind', [st], L + 1) for st in STYLES]
    nchunk = 6 if ctx.quick else 24
    for cn in ('Value', 'SQLiteValue', 'PGValue', 'MySQLValue'):
        for k in range(nchunk): jobs.append(('lit', strs[k::nchunk] if k else [strs[0]] + strs[nchunk::nchunk], [cn]))
    for op in OPS: jobs.append(('like', op, L))
    for pos in POSITIONS:
        per = 2 if ctx.quick else 6
        for k in range(per): jobs.append(('ident', pos, idn[k::per]))
    jobs.append(('quote', [s for s in lib.strings_over(IDENT_ALPHABET, 3) if s]))
    for d in ctx.pmap(worker, ctx.shuffled(jobs)):
        core.absorb(ctx, d)
    c = ctx.counters
    ctx.guard('placeholder patterns bound and executed', c.get('bind_cases', 0), 5000)
    ctx.guard('literals rendered', c.get('literal_cases', 0), 15000)
    ctx.guard('literals that denote their value', c.get('literal_ok', 0), 10000)
    ctx.guard('LIKE queries executed', c.get('like_queries', 0), 800)
    ctx.guard('schemas created with adversarial names', c.get('ident_ok', 0), 100)
    ctx.guard('quote_name cases', c.get('quote_name_cases', 0), 1000)
    ctx.assume('PEP 249 binder model vf.engines.dm.bind_placeholders: format/pyformat drivers %-interpolate the statement; placeholders inside quoted literals are not parameters for qmark/numeric/named drivers')
    ctx.assume('lexical models in vf/props/_c06_lib.py (model-based): standard SQL string literals treat only two single quotes as special (checked against the SQLite engine on every string); MySQL with default sql_mode additionally treats backslash as escape character; PostgreSQL X\'..\' is a bit string; Oracle quoted identifiers cannot contain a double quote')
    ctx.assume('SQLite date/time literals are compared with what the SQLite provider\'s own converter binds for the same value as a parameter')
    ctx.cov['bounds'] = dict(identifier_name_length=2 if ctx.quick else 3, literal_string_length=L, like_string_length=L, parameter_occurrences=L + 1)
    return dict(evaluations=c.get('evaluations', 0), distinct_nontrivial=c.get('distinct_nontrivial', 0),
                rule='bind: (builder, style, template, occurrence pattern), non-trivial = a key repeats or keys are out of order; '
                     'literal: (value class, style, value), non-trivial = non-string or string containing a quote/backslash/percent/newline; '
                     'like: (operation, form, pattern, subject), non-trivial = pattern contains % _ or !; '
                     'ident: (position, name) / (dialect, name), non-trivial = name contains a quote, dot, semicolon or space. All tuples are distinct by construction.')

def replay(ctx, case):
    from vf import stubs
    stubs.install_all()
    part = case['part']
    if part == 'bind':
        ok = True
        for pat in (case['pattern'], case['minimal']):
            r = bind_check(case['builder'], case['style'], case['template'], pat)
            print(case['builder'], case['style'], case['template'], rgs(pat), '->', 'ok' if r is None else json.dumps(r, default=repr)[:500])
            ok = ok and r is None
        return ok
    if part == 'literal':
        ok = True
        values = dict((repr(v), v) for v in lib.strings_over(STR_ALPHABET, 4) + other_values())
        for rv in (case['value'], case['minimal']):
            r = lit_check(case['value_class'], case['style'], values[rv])
            print(case['value_class'], case['style'], rv, '->', 'ok' if r is None else json.dumps(r, default=repr, ensure_ascii=False)[:500])
            ok = ok and (r is None or r[0] == 'refused')
        return ok
    if part == 'like':
        from pony.orm import db_session, select
        db, strs = like_db(max(3, len(case['pattern']), len(case['subject'])))
        tmpl, pyf = OPS[case['op']]
        ok = True
        for p, s in ((case['pattern'], case['subject']), (case['minimal_pattern'], case['minimal_subject'])):
            with db_session:
                if case['form'] == 'const': ids = select('x.id for x in S if ' + tmpl.format(repr(p)), {'S': db.S})[:]
                elif case['form'] == 'param': ids = select('x.id for x in S if ' + tmpl.format('p'), {'S': db.S}, {'p': p})[:]
                else: ids = [i // len(strs) for i in select('x.id for x in P if ' + tmpl.format('x.t'), {'P': db.P})[:] if strs[i % len(strs)] == p]
                print(db.last_sql)
            sel = s in set(strs[i] for i in ids)
            print('pattern %r subject %r: selected=%s python=%s' % (p, s, sel, pyf(s, p)))
            ok = ok and sel == pyf(s, p)
        return ok
    if part == 'ident':
        ok = True
        for nm in (case['name'], case['minimal']):
            r = ident_check(case['position'], nm)
            print(case['position'], repr(nm), '->', 'ok' if r is None else json.dumps(r, default=repr)[:600])
            ok = ok and (r is None or r[0] == 'refused')
        return ok
    if part == 'quote':
        prov = provider(case['provider'])
        arg = case['name'] if isinstance(case['name'], str) else tuple(case['name'])
        text = prov.quote_name(arg)
        print(case['provider'], repr(arg), '->', text)
        if case['provider'] == 'oracle' and '"' in json.dumps(case['name']).replace('\\"', '\x00')[1:-1].replace('"', '').replace('\x00', '"'): return False
        try: return lib.lex_quoted_name(text, DIALECT_QUOTE[case['provider']]) == ([arg] if isinstance(arg, str) else list(arg))
        except lib.LexError: return False
    return True
