"""Observed schema for C26: from the SQLite catalog (PRAGMAs) or from a generated CREATE script
(PostgreSQL / MySQL / Oracle capture providers; also SQLite's script for the creation order).

Observed = dict(
  tables = {name: dict(columns=[dict(name,type,notnull,unique,pk,auto,default)], pk=[col,..],
                       uniques=[(name|None, (cols))], indexes=[(name, (cols), unique)],
                       fks=[dict(name, cols, ref, refcols, on_delete)])},
  order  = [('table', name) | ('index', name, table) | ('fk', name, table, ref) | ('sequence', name) | ('trigger', name, table)],
)
Table names are str or (schema, str)."""
import re

class ParseError(Exception):
    pass

def _name_re(q):
    q = re.escape(q)
    one = r'%s(?:[^%s]|%s%s)*%s' % (q, q, q, q, q)
    return one, r'%s(?:\.%s)?' % (one, one)

def _unq(text, q):
    """'"a"."b"' -> ('a', 'b');  '"a"' -> 'a'"""
    one, _ = _name_re(q)
    parts = [p[1:-1].replace(q + q, q) for p in re.findall(one, text)]
    return parts[0] if len(parts) == 1 else tuple(parts)

def _cols(text, q):
    one, _ = _name_re(q)
    return tuple(p[1:-1].replace(q + q, q) for p in re.findall(one, text))

_COL_STOP = re.compile(r'\b(DEFAULT|NOT NULL|PRIMARY KEY|UNIQUE|REFERENCES)\b')

def parse_script(script, q):
    one, qn = _name_re(q)
    tables, order = {}, []
    def table(name):
        if name not in tables: raise ParseError('statement refers to table %r before its CREATE TABLE' % (name,))
        return tables[name]
    for stmt in script.split(';\n\n'):
        stmt = stmt.strip()
        if not stmt: continue
        m = re.match(r'CREATE TABLE (%s) \(\n(.*)\n\)(.*)$' % qn, stmt, re.S)
        if m:
            name = _unq(m.group(1), q)
            if name in tables: raise ParseError('table %r created twice' % (name,))
            t = tables[name] = dict(columns=[], pk=[], uniques=[], indexes=[], fks=[], options=m.group(3).strip())
            order.append(('table', name))
            for line in m.group(2).split('\n'):
                line = line.strip()
                if line.endswith(','): line = line[:-1]
                _table_line(t, line, q, one, qn)
            continue
        m = re.match(r'CREATE (UNIQUE )?INDEX (%s) ON (%s)(?: USING GIN)? \((.*)\)$' % (one, qn), stmt, re.S)
        if m:
            iname, tname = _unq(m.group(2), q), _unq(m.group(3), q)
            order.append(('index', iname, tname))
            table(tname)['indexes'].append((iname, _cols(m.group(4), q), bool(m.group(1))))
            continue
        m = re.match(r'ALTER TABLE (%s) ADD (?:CONSTRAINT (%s) )?FOREIGN KEY \((.*?)\) REFERENCES (%s) \((.*?)\)(?: ON DELETE (.*))?$'
                     % (qn, one, qn), stmt, re.S)
        if m:
            tname, ref = _unq(m.group(1), q), _unq(m.group(4), q)
            fname = _unq(m.group(2), q) if m.group(2) else None
            order.append(('fk', fname, tname, ref))
            table(tname)['fks'].append(dict(name=fname, cols=_cols(m.group(3), q), ref=ref,
                                            refcols=_cols(m.group(5), q), on_delete=(m.group(6) or '').strip() or None))
            continue
        m = re.match(r'CREATE SEQUENCE (%s) NOCACHE$' % qn, stmt)
        if m:
            order.append(('sequence', _unq(m.group(1), q)))
            continue
        m = re.match(r'CREATE TRIGGER (%s)\s+BEFORE INSERT ON (%s)' % (qn, qn), stmt)
        if m:
            order.append(('trigger', _unq(m.group(1), q), _unq(m.group(2), q)))
            continue
        raise ParseError('unrecognised statement: %s' % stmt[:120])
    return dict(tables=tables, order=order)

def _table_line(t, line, q, one, qn):
    m = re.match(r'(?:CONSTRAINT (%s) )?PRIMARY KEY \((.*)\)$' % one, line)
    if m:
        if t['pk']: raise ParseError('two primary keys')
        t['pk'] = list(_cols(m.group(2), q)); t['pk_name'] = _unq(m.group(1), q) if m.group(1) else None
        return
    m = re.match(r'(?:CONSTRAINT (%s) )?UNIQUE \((.*)\)$' % one, line)
    if m:
        t['uniques'].append((_unq(m.group(1), q) if m.group(1) else None, _cols(m.group(2), q)))
        return
    m = re.match(r'(?:CONSTRAINT (%s) )?FOREIGN KEY \((.*?)\) REFERENCES (%s) \((.*?)\)(?: ON DELETE (.*))?$' % (one, qn), line)
    if m:
        t['fks'].append(dict(name=_unq(m.group(1), q) if m.group(1) else None, cols=_cols(m.group(2), q),
                             ref=_unq(m.group(3), q), refcols=_cols(m.group(4), q), on_delete=(m.group(5) or '').strip() or None))
        return
    m = re.match(r'(%s) (.*)$' % one, line)
    if not m: raise ParseError('unrecognised line in CREATE TABLE: %s' % line[:100])
    name, rest = _unq(m.group(1), q), m.group(2)
    stop = _COL_STOP.search(rest)
    typ = (rest[:stop.start()] if stop else rest).strip()
    auto = bool(re.search(r'AUTO_INCREMENT|AUTOINCREMENT', rest)) or typ in ('SERIAL', 'BIGSERIAL')
    col = dict(name=name, type=typ, notnull='NOT NULL' in rest, unique=bool(re.search(r'\bUNIQUE\b', rest)),
               pk='PRIMARY KEY' in rest, auto=auto,
               default=(re.search(r'DEFAULT (.*?)(?: NOT NULL| PRIMARY KEY| UNIQUE| REFERENCES|$)', rest) or [None, None])[1])
    t['columns'].append(col)
    if col['pk']:
        if t['pk']: raise ParseError('two primary keys')
        t['pk'] = [name]
    if col['unique'] and not col['pk']: t['uniques'].append((None, (name,)))
    m = re.search(r'REFERENCES (%s) \((.*?)\)(?: ON DELETE (.*))?$' % qn, rest)
    if m:
        t['fks'].append(dict(name=None, cols=(name,), ref=_unq(m.group(1), q), refcols=_cols(m.group(2), q),
                             on_delete=(m.group(3) or '').strip() or None))

# ---- SQLite catalog -------------------------------------------------------------------------------------
def _qi(s): return '"' + s.replace('"', '""') + '"'

def introspect_sqlite(con):
    """con: a plain sqlite3 connection on the created database"""
    tables = {}
    rows = con.execute("select name, sql from sqlite_master where type='table' and name not like 'sqlite_%' order by rowid").fetchall()
    for tname, sql in rows:
        t = tables[tname] = dict(columns=[], pk=[], uniques=[], indexes=[], fks=[], sql=sql)
        pk = {}
        for cid, name, typ, notnull, dflt, pkpos in con.execute('PRAGMA table_info(%s)' % _qi(tname)):
            t['columns'].append(dict(name=name, type=typ, notnull=bool(notnull), unique=False, pk=bool(pkpos),
                                     auto=False, default=dflt))
            if pkpos: pk[pkpos] = name
        t['pk'] = [pk[k] for k in sorted(pk)]
        if 'AUTOINCREMENT' in sql.upper():
            for c in t['columns']:
                if c['pk']: c['auto'] = True
        for seq, iname, unique, origin, partial in con.execute('PRAGMA index_list(%s)' % _qi(tname)).fetchall():
            cols = tuple(r[2] for r in con.execute('PRAGMA index_info(%s)' % _qi(iname)))
            if origin == 'pk': continue
            if unique: t['uniques'].append((None if origin == 'u' else iname, cols))
            if origin == 'c': t['indexes'].append((iname, cols, bool(unique)))
        fks = {}
        for fid, seq, ref, frm, to, on_update, on_delete, match in con.execute('PRAGMA foreign_key_list(%s)' % _qi(tname)):
            f = fks.setdefault(fid, dict(name=None, cols=[], ref=ref, refcols=[], on_delete=None if on_delete == 'NO ACTION' else on_delete))
            f['cols'].append(frm); f['refcols'].append(to)
        for fid in sorted(fks):
            f = fks[fid]; f['cols'] = tuple(f['cols']); f['refcols'] = tuple(f['refcols'])
            t['fks'].append(f)
        for c in t['columns']:
            if any(cols == (c['name'],) for _, cols in t['uniques']): c['unique'] = True
    return dict(tables=tables, order=[('table', n) for n, _ in rows])
