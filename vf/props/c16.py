"""C16 Flush emits writes in an order the database accepts.

SX monitor at every flush / commit / leave-session transition of every explored history (foreign keys
are enforced immediately by SQLite; bulk deletes are excluded so that the session never holds stale
objects by design). Allowed outcomes:
  * success;
  * UnresolvableCyclicDependency iff the objects created and not yet saved in this session reference
    each other in a cycle through column-bearing attributes (computed from a twin's session view);
  * key conflicts with rows that exist in the database but were not loaded (unique / primary key).
A FOREIGN KEY failure is never acceptable: with no concurrent session every pending state reachable
through the API is FK-consistent. After a cyclic-dependency error nothing of the session is committed.
"""
from vf import core
from vf.engines import sx

LEVEL = 'model_checking'
FLUSHES = ('flush', 'commit', 'end')

def created_cycle(env, x_before_view, committed_labels):
    """cycle among objects that exist in the session view but not in the committed rows, through
    reference attributes that carry columns"""
    view = x_before_view
    new = [l for l, v in view.items() if v is not None and l not in committed_labels]
    edges = {}
    for l in new:
        cls = env.E[view[l]['__class__']]
        for a in cls._attrs_:
            if a.is_collection or not a.reverse or not a.columns: continue
            t = view[l].get(a.name)
            if t in new: edges.setdefault(l, set()).add(t)
    # DFS
    color = {}
    def dfs(u):
        color[u] = 1
        for v in edges.get(u, ()):
            if color.get(v) == 1: return True
            if v not in color and dfs(v): return True
        color[u] = 2
        return False
    return any(dfs(u) for u in new if u not in color)

def worker(args):
    name, tier, seed, fixture = args
    from vf.models import catalog
    sub = core.Sub()
    env = sx.Env(catalog.by_name(name))
    rel = name.split('-')[0]
    ops = [op for op in env.ops() if op[0] not in ('qdel', 'bulkdel')]
    ex = sx.Explorer(env, fixtures=(fixture,), ops=ops)
    ex.track_dumps = True
    def visit(env_, fx, hist, x):
        op = hist[-1]
        if op[0] not in FLUSHES: return
        sub.count('flush_transitions')
        o = x.obs[-1]
        if o[0] == 'ok':
            sub.count('flush_ok'); return
        exc = o[1]
        sub.count('flush_exc:' + exc)
        msg = str(getattr(x, 'last_exc', ''))
        before, after = x.dumps[0], x.dumps[-1]
        if after != before:
            sub.violation('%s|%s|failed-%s-changed-committed-rows' % (rel, sx.kinds(hist), exc),
                          dict(model=name, fixture=fixture, history=hist, error=msg), 'a failing flush/commit left rows behind')
        if 'FOREIGN KEY' in msg.upper():
            small = sx.shrink(hist, lambda h: (lambda y: y.obs[-1][0] == 'exc' and 'FOREIGN KEY' in str(getattr(y, 'last_exc', '')).upper())(env.run(h, fixture)))
            sub.violation('%s|%s|foreign-key-failure' % (rel, sx.kinds(small)),
                          dict(model=name, fixture=fixture, history=small, error=msg),
                          'flush order rejected by the database: %s' % msg[:200])
        elif exc in ('OptimisticCheckError', 'UnrepeatableReadError', 'AssertionError', 'KeyError', 'AttributeError', 'TypeError') \
                and not sx.latent_conflict(fixture, hist) and all(q[0] == 'ok' for q in x.obs[:-1]):
            # no other session exists: nothing can have changed the rows behind this session's back, so a
            # failing optimistic check (or an internal error) can only come from the order of the writes
            small = sx.shrink(hist, lambda h: (lambda y: y.obs[-1] == ('exc', exc) and all(q[0] == 'ok' for q in y.obs[:-1]))(env.run(h, fixture)))
            sig = '%s|%s|flush-fails-with-%s' % (rel, sx.kinds(small), exc)
            deleted = set(op[1] for op in small if op[0] == 'delete')
            if any(op[0] == 'objflush' and op[1] in deleted for op in small):
                # one defect, one name: obj.flush() of a deleted object sends its DELETE before the queued updates of its dependents
                sig = 'obj.flush()-of-deleted-object|later-flush-fails-with-%s' % exc
            elif any(op[0] == 'objflush' for op in small[:-1]) and exc == 'OptimisticCheckError':
                # the same defect without a deletion: obj.flush() writes ONE object of a re-linked pair out of the queued order
                sig = 'obj.flush()-of-one-object-of-a-relinked-pair|later-flush-fails-with-%s' % exc
            sub.violation(sig,
                          dict(model=name, fixture=fixture, history=small, error=msg),
                          'flush of an orderable set of writes failed: %s: %s' % (exc, msg[:200]))
        elif exc == 'UnresolvableCyclicDependency':
            tw = env.run(list(hist[:-1]) + [('view_created',)], fixture, record_sql=False)
            if tw.obs[-1][0] != 'ok':
                sub.count('cycle_twin_unreadable'); return
            if created_cycle(env, tw.obs[-1][1], set()): sub.count('justified_cyclic_dependency')
            else:
                small = sx.shrink(hist, lambda h: (lambda y: y.obs[-1] == ('exc', 'UnresolvableCyclicDependency'))(env.run(h, fixture)))
                sub.violation('%s|%s|cyclic-dependency-without-cycle' % (rel, sx.kinds(small)),
                              dict(model=name, fixture=fixture, history=small, error=msg, view=tw.obs[-1][1]),
                              'UnresolvableCyclicDependency although the created objects do not reference each other in a cycle: %s' % msg[:200])
    ops_ = ex.ops + [r for r in env.shaping_reads() if r[0] in ('r_citer', 'r_attr')]
    ex.ops = ops_
    ex.run(3 if tier != 'quick' and sx.deep_model(name, fixture) else 2, visit, order=sx.seeded_order(seed), last_only=lambda op: op[0] in FLUSHES)
    env.close()
    for s in ex.samples: sub.sample(s)
    return dict(sub=sub.dump(), states=ex.states, transitions=ex.transitions, executions=ex.executions)

def run(ctx):
    agg = sx.run_catalogue(ctx, worker, tier='quick' if ctx.quick else 'thorough', fixtures=('populated', 'empty', 'populated-seeds'))
    ctx.guard('flush transitions', ctx.counters.get('flush_transitions', 0), 5000)
    ctx.guard('successful flushes with pending writes', ctx.counters.get('flush_ok', 0), 1000)
    ctx.cov['per_model'] = agg['per_model']
    ctx.cov['bounds'] = 'every flush/commit/end at the end of every history of 2 (thorough: 3 for the plain one-to-many and many-to-many models from the populated fixture) arbitrary operations + the flush from every fixture'
    ctx.assume('single session: no concurrent deletions, so a FOREIGN KEY failure can only come from statement order; SQLite enforces foreign keys immediately')
    return dict(states=agg['states'], transitions=agg['transitions'], traces_validated_against_impl=agg['executions'])

def replay(ctx, case):
    from vf.models import catalog
    env = sx.Env(catalog.by_name(case['model']))
    hist = [tuple(tuple(x) if isinstance(x, list) else x for x in o) for o in case['history']]
    x = env.run(hist, case['fixture'])
    print(x.obs, getattr(x, 'last_exc', None))
    env.close()
    return x.obs[-1][0] == 'ok'
