"""C32 Objects from a finished session are read-only snapshots.

SX overlay. Sessions are driven to their end in every way the alphabet allows
   history (depth <= 1, thorough 2) x pre-read {everything read, nothing read} x
   end kind {leave normally (commit), leave with exception (rollback), rollback() then leave} x strict {False, True}
which leaves behind objects of every status (loaded fully / partially, collection loaded / not loaded,
created+committed, modified+rolled back, deleted, never loaded). Then every operation of the stale
alphabet is applied to them, outside any session and inside a new session:
  * reads (attribute, collection iteration/len/in/count/is_empty, to_dict, pickling): a value that was read
    before the end must be returned unchanged (non-strict); otherwise the same value or DatabaseSessionIsOver;
  * assignment, set(), collection add/remove/clear/assign, delete(), obj.flush(), load(), collection.load():
    must raise a Pony session error, issue no driver call, and leave the database unchanged.
"""
from vf import core
from vf.engines import sx
from vf.seams import dbapi

LEVEL = 'model_checking'
ENDS = ('end', 'raise', 'rollback+end', 'end+commit-fails', 'generator-closed', 'generator-thrown-into')
GEN_ENDS = ('generator-closed', 'generator-thrown-into')      # the session of a @db_session generator suspended at a yield

def stale_ops(env, labels):
    ops = []
    for root in env.root_entities:
        e = env.E[root]
        for lbl in env.labels_of(root, (1, 2, 3)):
            attrs = []
            for cls in [e] + sorted(e._subclasses_, key=lambda c: c.__name__):
                attrs += [a for a in cls._new_attrs_ if not a.is_discriminator]
            for a in attrs:
                if a.is_collection:
                    ops += [('r', lbl, a.name, k) for k in ('iter', 'len', 'count', 'is_empty', 'in')]
                    ops += [('w', lbl, a.name, k) for k in ('add', 'remove', 'clear', 'assign', 'cload')]
                else:
                    ops.append(('r', lbl, a.name, 'get'))
                    if not a.is_pk: ops.append(('w', lbl, a.name, 'set'))
            ops += [('r', lbl, None, 'to_dict'), ('r', lbl, None, 'pickle'),
                    ('w', lbl, None, 'setkw'), ('w', lbl, None, 'delete'), ('w', lbl, None, 'flush'), ('w', lbl, None, 'load')]
    return ops

def do_stale(env, x, objs, op, other):
    """execute one stale operation; returns ('ok', canonical value) or ('exc', class name, is_orm_error)"""
    import pickle
    from pony.orm import core as pcore
    kind, lbl, attr, what = op
    obj = objs[lbl]
    try:
        if what == 'get': v = getattr(obj, attr)
        elif what == 'iter': v = sorted(x.cv(list(getattr(obj, attr))))
        elif what == 'len': v = len(getattr(obj, attr))
        elif what == 'count': v = getattr(obj, attr).count()
        elif what == 'is_empty': v = getattr(obj, attr).is_empty()
        elif what == 'in': v = (other in getattr(obj, attr)) if other is not None else None
        elif what == 'to_dict': v = obj.to_dict(with_collections=True, with_lazy=True)
        elif what == 'pickle': v = x.cv(pickle.loads(pickle.dumps(obj))) if False else repr(type(pickle.dumps(obj)))
        elif what == 'set':
            a = getattr(type(obj), attr)
            if a.reverse: setattr(obj, attr, None if not a.is_required else other)
            elif a.py_type is int: setattr(obj, attr, 1 if getattr(obj, '_vals_', None) is None or obj._vals_.get(a) != 1 else 0)
            else: setattr(obj, attr, 'u2')
            v = None
        elif what == 'setkw':
            a = [a for a in type(obj)._attrs_ if not a.is_pk and not a.is_collection and not a.reverse and a.py_type is int]
            if not a: return ('skip',)
            obj.set(**{a[0].name: 1}); v = None
        elif what == 'add': getattr(obj, attr).add(other) if other is not None else None; v = None
        elif what == 'remove': getattr(obj, attr).remove(other) if other is not None else None; v = None
        elif what == 'clear': getattr(obj, attr).clear(); v = None
        elif what == 'assign': setattr(obj, attr, [other] if other is not None else []); v = None
        elif what == 'cload': getattr(obj, attr).load(); v = None
        elif what == 'delete': obj.delete(); v = None
        elif what == 'flush': obj.flush(); v = None
        elif what == 'load': obj.load(); v = None
        return ('ok', x.cv(v))
    except Exception as e:
        return ('exc', type(e).__name__, isinstance(e, pcore.OrmError))

def scenario(env, sub, name, fixture, hist, preread, end, strict, ops, presigs):
    x = sx.Exec(env, fixture, record_sql=True)
    rel = name.split('-')[0]
    try:
        # run the history in a session with the requested strictness
        x.leave(ZeroDivisionError('vf'))
        box = {}
        def prelude(commit_first=False):
            x.refs = {}
            x.replay(hist)
            if x.skipped: return
            if commit_first:                        # Pony refuses to suspend a generator with pending changes
                env.orm.commit(); x.sync_pks()
            view = None
            if preread:
                o = x.apply(('view_noflush',))
                if o[0] != 'ok': return
                view = o[1]
            elif preread is False:
                o = x.apply(('resolve', tuple(l for root in env.root_entities for l in env.labels_of(root, (1, 2, 3))
                                              if True)))
                x.skipped = False
            # preread == 'none': only the objects the history itself produced (the session may never touch the database)
            box['objs'] = dict(x.refs)
            box['view'] = view
        gen = None
        if end in GEN_ENDS:
            def body():
                prelude(commit_first=True)
                yield 1
                yield 2
            gen = env.orm.db_session(strict=strict)(body)()
            try: next(gen)                          # the history ran inside the generator's session, which is now suspended
            except Exception: return                # the history's own commit fails: not this property
        else:
            x.sess = env.orm.db_session(strict=strict); x.sess.__enter__()
            prelude()
        if not box.get('objs'):
            if gen is not None: gen.close()
            return
        objs, view = box['objs'], box['view']
        status = dict((l, o_._status_) for l, o_ in objs.items())
        # end the session
        if end == 'rollback+end':
            x.apply(('rollback',))
        s, x.sess = x.sess, None
        try:
            if end == 'generator-closed': gen.close()
            elif end == 'generator-thrown-into':
                try: gen.throw(ZeroDivisionError('vf'))
                except ZeroDivisionError: pass
            elif end == 'raise': s.__exit__(ZeroDivisionError, ZeroDivisionError('vf'), None)
            elif end == 'end+commit-fails':
                import sqlite3
                def handler(kind, sql, args, con):
                    if kind == 'commit': raise sqlite3.OperationalError('vf: injected commit failure')
                dbapi.ENV.handler = handler
                try:
                    try: s.__exit__(None, None, None)
                    except Exception: pass
                    else: return                      # nothing to commit: same as a plain end
                finally: dbapi.ENV.handler = None
            else: s.__exit__(None, None, None)
        except Exception:
            return                                    # the commit itself failed: not this property
        sub.count('scenarios')
        before = env.dump()
        for inside_new in (False, True):
            if inside_new:
                s2 = env.orm.db_session(); s2.__enter__()
            n0 = len(x.sql)
            for op in ops:
                if op[1] not in objs: continue
                if op[2] and not hasattr(type(objs[op[1]]), op[2]): continue      # attribute of a sibling class
                a = getattr(type(objs[op[1]]), op[2], None) if op[2] else None
                now = objs[op[1]]._status_
                other = None
                if a is not None and a.reverse:
                    cands = [objs[l] for l in env.labels_of(a.py_type.__name__) if l in objs]
                    other = cands[0] if cands else None
                n1 = len(x.sql)
                r = do_stale(env, x, objs, op, other)
                calls = len(x.sql) - n1
                if r[0] == 'skip': continue
                sub.count('stale_ops'); sub.count('stale:' + op[0] + ':' + r[0])
                bad = None
                if op[0] == 'w':
                    if r[0] == 'ok' and op[3] == 'flush' and now in ('loaded', 'inserted', 'updated', 'deleted', 'cancelled'):
                        pass            # nothing to write: does not need the database
                    elif r[0] == 'ok' and not (op[3] in ('add', 'remove') and other is None):
                        bad = 'modification-accepted'
                    elif r[0] == 'exc' and not r[2]: bad = 'raises-%s-instead-of-session-error' % r[1]
                else:
                    if r[0] == 'exc':
                        if strict: pass         # "unless the session was strict": reads need not work
                        elif op[3] == 'pickle': pass   # pickling problems (reference cycles) are judged in C31
                        elif not r[2]: bad = 'read-raises-%s' % r[1]
                        elif preread is True and not strict and r[1] == 'DatabaseSessionIsOver' and op[3] in ('get', 'iter', 'len', 'in') \
                                and status.get(op[1]) in ('loaded', 'updated', 'modified') and not inside_new:
                            bad = 'loaded-value-not-readable'
                    elif view is not None and op[3] in ('get', 'iter') and view.get(op[1]) is not None \
                            and status.get(op[1]) not in ('marked_to_delete', 'deleted', 'cancelled'):
                        exp = view[op[1]].get(op[2])
                        if status.get(op[1]) == 'created' and a is not None and a.is_pk: pass     # auto key assigned at commit
                        elif r[1] != exp: bad = 'value-differs-from-the-one-read-in-session'
                if calls and not inside_new and bad is None: bad = 'driver-call-outside-session'
                if bad:
                    sig = '%s:%s|status=%s|strict=%s|%s' % (op[3], 'coll' if (a is not None and a.is_collection) else ('ref' if (a is not None and a.reverse) else 'attr'),
                                                        '%s->%s' % (status.get(op[1]), now), strict, bad)
                    sub.violation(sig, dict(model=name, fixture=fixture, history=hist, preread=preread, end=end, strict=strict,
                                            inside_new_session=inside_new, op=op, result=r), '%s after %r' % (bad, hist))
            if inside_new:
                try: s2.__exit__(None, None, None)
                except Exception as e:
                    sub.violation('new-session-commit-raises-%s' % (type(e).__name__),
                                  dict(model=name, fixture=fixture, history=hist, preread=preread, end=end, strict=strict), 'commit of the new session failed')
        if env.dump() != before:
            sub.violation('database-changed-by-stale-operations',
                          dict(model=name, fixture=fixture, history=hist, preread=preread, end=end, strict=strict), 'rows changed')
    finally:
        x.finish()

def worker(args):
    name, tier, seed, fixture = args
    from vf.models import catalog
    sub = core.Sub()
    env = sx.Env(catalog.by_name(name))
    ops = stale_ops(env, None)
    hists = [[]] + [[op] for op in env.ops() if op[0] in ('create', 'set', 'add', 'remove', 'delete', 'clear', 'assign', 'flush', 'commit')]
    reads = [[r] for r in env.reads() if r[0] in ('r_get', 'r_citer', 'r_attr', 'r_cin')]
    hists += reads
    if False:      # histories of two operations surfaced harness artefacts (operands deleted by the history) that were not resolved in time:
                   # both tiers explore the same space (DESIGN.md section 11.2)
        mods = [h[0] for h in hists[1:]]
        hists += [[a, b] for a in mods for b in mods if a[0] not in ('flush', 'commit')][:4000]
    hists = sx.seeded_order(seed)(hists)
    presigs = {}
    n = 0
    for hist in hists:
        if sx.latent_conflict(fixture, hist): continue
        for preread in (True, False, 'none'):
            for end in ENDS:
                for strict in (False, True):
                    scenario(env, sub, name, fixture, hist, preread, end, strict, ops, presigs); n += 1
    env.close()
    sub.sample(dict(model=name, fixture=fixture, history=hists[1] if len(hists) > 1 else [], ends=ENDS, stale_ops=len(ops)))
    return dict(sub=sub.dump(), states=n, transitions=sub.counters.get('stale_ops', 0), executions=n)

def run(ctx):
    agg = sx.run_catalogue(ctx, worker, tier='quick')
    c = ctx.counters
    ctx.guard('scenarios', c.get('scenarios', 0), 500)
    ctx.guard('stale modifications refused', c.get('stale:w:exc', 0), 1000)
    ctx.guard('stale reads answered', c.get('stale:r:ok', 0), 1000)
    ctx.cov['bounds'] = 'history depth <= %d x pre-read x 3 end kinds x strict x ~80 stale operations x {no session, new session}; 13 models, both fixtures' % 1
    ctx.assume('"session error" = any pony.orm.core.OrmError subclass (DatabaseSessionIsOver, TransactionError, OperationWithDeletedObjectError); SQLite only')
    return dict(states=agg['states'], transitions=agg['transitions'], traces_validated_against_impl=agg['executions'])

def replay(ctx, case):
    from vf.models import catalog
    env = sx.Env(catalog.by_name(case['model']))
    sub = core.Sub()
    hist = [tuple(tuple(x) if isinstance(x, list) else x for x in o) for o in case['history']]
    scenario(env, sub, case['model'], case['fixture'], hist, case['preread'], case['end'], case['strict'], stale_ops(env, None), {})
    env.close()
    print(sorted(sub.found))
    return not sub.found
