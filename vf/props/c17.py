"""C17 A session's writes are atomic under crashes and database errors.

FX check. Write programs (creates, dependent creates, updates, cascading delete, m2m link/unlink, raw
db.execute insert/update inside the session, optional explicit commit() in the middle, optionally a
commit() whose failure the program catches before it goes on) x session kind {optimistic default,
db_session(immediate=True), db_session(serializable=True)} x every driver-call index x {injected error
of three classes, crash}.

SQLite path (real engine, real file, default rollback journal):
  reference run (no fault) -> driver-call count N, committed snapshots S0..Sn (read by an independent
  connection after each acknowledged commit point). Then
  * error plans: fault at call k (and "acknowledgement lost": commit k really happens, then fails);
    thorough adds every pair k1 < k2;
  * crash plans: (a) observer form, every execution: the committed rows an independent connection
    sees before every driver call are what abandoning the connection at that call leaves; (b) the
    real thing: forked child os._exit()s at call k (and right after the real commit k), the parent
    reopens the file (hot-journal replay) - two programs in quick; all single-operation programs, all
    pairs of core operations and half of those with a commit in the middle in thorough.
  Oracle: the committed rows equal S_a (a = commit points acknowledged so far) or, only if a driver
  commit has been issued since, S_{a+1}; anything else is a partial / lost / premature commit. With an
  injected error the exception must leave the session (or the commit() call the program guards).
  For programs that catch a failed commit() and continue, the failed interval must be entirely absent
  (or, if the driver commit had been issued, entirely present) next to the rest of the program; for
  programs that catch a failed raw db.execute() and continue, the rest of the program is the transaction.

PostgreSQL path (MODEL-BASED, vf.props._fx_pg): the real core.py + PGProvider/PGPool on a fake
psycopg2 connection (autocommit flag, commit, rollback, close, statement log; SQLite as relational
substrate). Same fault enumeration with five fault classes including reconnectable ones
(OperationalError with pgcode None / 57P01). Oracle: no write statement runs with autocommit=True; all
writes between two commit points run in one transaction and that is the one committed; committed rows
obey the same snapshot rule.
"""
import itertools
from vf import core
from vf.engines import fx

LEVEL = 'fault_enumeration'
KINDS = ('opt', 'imm', 'ser')
CATCH = ('ccommit', 'cdbcommit')
CONTROL = ('commit', 'dbcommit') + CATCH
GUARDED = ('xri', 'xru')          # raw statement whose failure the program catches before it goes on
WRITE_OPS = ('c', 'cp', 'u1', 'u2', 'd1', 'l', 'ul', 'ri', 'ru', 'g')
CORE_OPS = ('c', 'u1', 'd1', 'l', 'ri', 'ru')

# ---- model ----------------------------------------------------------------------------------------
def define(db, orm):
    class Person(db.Entity):
        name = orm.Required(str); age = orm.Optional(int)
        groups = orm.Set('Group'); pets = orm.Set('Pet')
    class Group(db.Entity):
        title = orm.Required(str); members = orm.Set(Person)
    class Pet(db.Entity):
        name = orm.Required(str); owner = orm.Required(Person)

def populate(E, orm):
    p1 = E['Person'](name='p1', age=1); p2 = E['Person'](name='p2', age=2)
    g1 = E['Group'](title='g1'); g2 = E['Group'](title='g2')
    orm.flush()
    p1.groups.add(g1)
    E['Pet'](name='x1', owner=p1)

def tn(world, name):
    return name.lower() if hasattr(world, 'server') else name

def op_c(w): w.E['Person'](name='p3', age=3)
def op_cp(w):
    p = w.E['Person'](name='p4', age=4); w.E['Pet'](name='x4', owner=p)
def op_u1(w): w.E['Person'][1].age = 7
def op_u2(w): w.E['Person'][2].name = 'zz'
def op_d1(w): w.E['Person'][1].delete()
def op_l(w): w.E['Person'][2].groups.add(w.E['Group'][2])
def op_ul(w): w.E['Person'][1].groups.remove(w.E['Group'][1])
def op_ri(w): w.db.execute('insert into "%s" ("title") values (\'raw\')' % tn(w, 'Group'))
def op_ru(w): w.db.execute('update "%s" set "age" = 99 where "id" = 2' % tn(w, 'Person'))
def op_g(w): w.E['Group'](title='g3')
OPS = dict(c=op_c, cp=op_cp, u1=op_u1, u2=op_u2, d1=op_d1, l=op_l, ul=op_ul, ri=op_ri, ru=op_ru, g=op_g)

def session(orm, kind):
    if kind == 'opt': return orm.db_session
    if kind == 'imm': return orm.db_session(immediate=True)
    if kind == 'ser': return orm.db_session(serializable=True)
    raise AssertionError(kind)

def mark(w, what):
    if hasattr(w, 'server'): w.server.log.append(('mark', what))

def make_program(tokens, kind):
    def program(w, px):
        orm = w.orm
        with session(orm, kind):
            for t in tokens:
                if t in ('commit', 'dbcommit'):
                    px.start(); mark(w, 'start')
                    (orm.commit if t == 'commit' else w.db.commit)()
                    px.ack(); mark(w, 'ack')
                elif t in CATCH:
                    px.start(); mark(w, 'start')
                    try: (orm.commit if t == 'ccommit' else w.db.commit)()
                    except Exception as e: px.caught(e); mark(w, 'caught')
                    else: px.ack(); mark(w, 'ack')
                elif t in GUARDED:
                    n0 = px.mon.n
                    try: OPS[t[1:]](w)
                    except Exception as e: px.caught(e); mark(w, 'caught-op')
                    px.note(('guarded-range', n0, px.mon.n))
                else: OPS[t](w)
            px.start(); mark(w, 'start')
        px.ack(); mark(w, 'ack')
    return program

def prog_class(tokens):
    if any(t in CATCH for t in tokens): return 'catch'
    if any(t in GUARDED for t in tokens): return 'guarded-op'
    if any(t in CONTROL for t in tokens): return 'mid-commit'
    return 'straight'

# ---- program spaces ---------------------------------------------------------------------------------
def valid(tokens):
    """a program must not use Person[1] after deleting it"""
    ops = [t[1:] if t in GUARDED else t for t in tokens if t not in CONTROL]
    if len(set(ops)) != len(ops): return False
    if 'd1' in ops and any(t in ('u1', 'ul') for t in ops[ops.index('d1') + 1:]): return False
    return True

def programs(tier, path):
    """list of (tokens, flags); flags: 'fork' (real crash plans), 'pairs' (double faults)"""
    out = []
    def add(tokens, *flags):
        if valid(tokens): out.append((tuple(tokens), frozenset(flags)))
    quick = tier == 'quick'
    prs = [p for p in itertools.permutations(CORE_OPS, 2) if valid(p)]
    allp = [p for p in itertools.permutations(WRITE_OPS, 2) if valid(p)]
    trs = [p for p in itertools.permutations(CORE_OPS, 3) if valid(p)]
    if path == 'pg':
        for a in WRITE_OPS: add([a])
        if quick:
            for a, b in prs[::3]: add([a, b])
            for a, b in prs[1::8]: add([a, 'commit', b])
        else:
            for a, b in allp: add([a, b], *(('pairs',) if (a, b) in prs[::5] else ()))
            for a, b in prs: add([a, 'commit', b])
            for a, b, c in trs[::4]: add([a, b, c])
            for a, b in prs[::3]: add([a, b, 'ccommit', 'g'])
        return out
    if quick:
        for a in WRITE_OPS: add([a], *(('fork',) if a == 'cp' else ()))
        for a, b in prs[::2]: add([a, b])
        for a, b in prs[1::6]: add([a, 'commit', b], *(('fork',) if (a, b) == prs[1] else ()))
        for a, b in prs[3::10]: add([a, 'dbcommit', b])
        for a, b in prs[2::10]: add([a, b, 'ccommit', 'g'])
        for a, b in prs[5::10]: add([a, b, 'cdbcommit', 'g'])
        add(['cp', 'ccommit', 'ru']); add(['d1', 'cdbcommit', 'ri'])
        add(['xri', 'ru']); add(['u1', 'xri', 'g']); add(['l', 'xru', 'c'])
    else:
        for a in WRITE_OPS: add([a], 'fork', 'pairs')
        for a, b in allp: add([a, b], *((('fork',) if (a, b) in prs else ()) + (('pairs',) if (a, b) in prs[::2] else ())))
        for a, b in allp: add([a, 'commit', b], *(('fork',) if (a, b) in prs[::2] else ()))
        for a, b in prs: add([a, 'dbcommit', b])
        for a, b, c in trs: add([a, b, c])
        for a, b, c in trs[::2]:
            add([a, 'commit', b, c]); add([a, b, 'commit', c])
        for a, b in prs:
            add([a, b, 'ccommit', 'g']); add([a, b, 'cdbcommit', 'g'])
        for a in ('cp', 'd1'):
            for x in CATCH:
                for b in ('ru', 'ri', 'l'): add([a, x, b])
        for x in GUARDED:
            add([x, 'g'])
            for a, b in prs: add([x, a, b]); add([a, x, b])
    return out

# ---- oracle -------------------------------------------------------------------------------------------
def snapshots(ref):
    return [ref.obs[0][1]] + list(ref.snaps)

def allowed_states(S, acks, commit_issued):
    out = [S[acks]]
    if commit_issued and acks + 1 < len(S): out.append(S[acks + 1])
    return out

def classify(S, d, acks):
    if d in S:
        return 'acknowledged-commit-lost' if S.index(d) < acks and d not in S[acks:] else 'committed-before-commit-was-issued'
    return 'partial'

def acks_before(events, k):
    a, pos = 0, 0
    for name, p in events:
        if p > k: break
        if name == 'ack': a += 1; pos = p
    return a, pos

def judge_straight(S, x, upto=None, skip_final=False):
    """violations of the snapshot rule in execution x: list of (component, call index or None)"""
    out = []
    calls = x.calls
    after_fired = [key for key, _, _ in x.fired if isinstance(key, tuple)]
    for k, d in x.obs:
        if upto is not None and k > upto: break
        a, pos = acks_before(x.events, k)
        ci = any(c[0] == 'commit' for c in calls[pos:k])
        if d not in allowed_states(S, a, ci):
            out.append(('crash-state:' + classify(S, d, a), k)); break
    if not skip_final:
        a, pos = acks_before(x.events, x.n + 1)
        ci = x.commit_issued_since(pos) or bool(after_fired)
        if x.final not in allowed_states(S, a, ci):
            out.append(('final:' + classify(S, x.final, a), None))
    return out

def judge(ref_pack, x, tokens):
    """ref_pack: dict(S=..., F_B=... for catch programs). Returns [(component, k)]"""
    S = ref_pack['S']
    out = []
    caught = [p for name, p in x.events if name == 'caught']
    fired_err = [f for f in x.fired if f[2] != 'crash']
    if fired_err and x.exc is None and not caught and not ref_pack.get('may_absorb', False):
        out.append(('error-swallowed', None))
    if not caught:
        return out + judge_straight(S, x)
    if 'S_minus' in ref_pack:               # the guarded raw statement failed as a whole: the rest of the program is the transaction
        return out + judge_straight(ref_pack['S_minus'], x)
    out += judge_straight(S, x, upto=caught[0], skip_final=True)
    if x.exc is not None:
        return out                      # a second failure after the caught one: judged by the obs part only
    ci = [i for i, e in enumerate(x.events) if e[0] == 'caught'][0]
    start = x.events[ci - 1][1]           # the 'start' event of the guarded commit
    issued = any(c[0] == 'commit' for c in x.calls[start:caught[0]])
    ok = [ref_pack['F_B']] + ([S[-1]] if issued else [])
    if x.final not in ok:
        out.append(('final:failed-commit-not-rolled-back', None))
    return out

def fault_site(ref, x):
    """class of the first driver call hit by a fault"""
    if not x.fired: return 'none'
    key, kind, f = x.fired[0]
    k = key[1] if isinstance(key, tuple) else key
    call = x.calls[k] if k < len(x.calls) else (kind, None)
    return ('after-' if isinstance(key, tuple) else '') + fx.call_class(call)

# ---- PG log oracle ------------------------------------------------------------------------------------
def pg_judge_log(log):
    """log: server log with ('mark', what) entries. Returns [(component, None)]"""
    out = []
    interval, comps = [], set()
    committed = set((e[0], e[1]) for e in log if e[0] != 'mark' and e[2] == 'COMMIT' and e[1] is not None)
    for e in log:
        if e[0] == 'mark':
            if e[1] in ('ack', 'caught'):
                writes = [(no, tx) for (no, tx, verb, w) in interval if w]
                if any(tx == 'auto' for _, tx in writes): comps.add('autocommit-write')
                txs = set(writes)
                if len(txs) > 1: comps.add('split-transaction')
                if e[1] == 'ack' and any(t not in committed for t in txs if t[1] != 'auto'): comps.add('acknowledged-transaction-not-committed')
                interval = []
            continue
        interval.append(e)
    if any(w and tx == 'auto' for (no, tx, verb, w) in interval): comps.add('autocommit-write')
    for c in ('autocommit-write', 'split-transaction', 'acknowledged-transaction-not-committed'):
        if c in comps: out.append((c, None))
    return out

def pg_reconnect_in_write_tx(log):
    """True if a connection was closed while its open transaction held writes and the same commit interval then
    went on with statements on another connection (SessionCache.reconnect in the middle of a write transaction)"""
    open_writes, closed_with_writes = {}, None
    for e in log:
        if e[0] == 'mark':
            if e[1] in ('ack', 'caught'): open_writes, closed_with_writes = {}, None
            continue
        no, tx, verb, w = e
        if verb in ('COMMIT', 'ROLLBACK'): open_writes.pop(no, None)
        elif verb == 'CLOSE':
            if open_writes.pop(no, False): closed_with_writes = no
        else:
            if isinstance(tx, int) and w: open_writes[no] = True
            if closed_with_writes is not None and no != closed_with_writes and not verb.startswith('AUTOCOMMIT'): return True
    return False

def pg_tx_state(log, pos):
    """state of the newest connection's transaction when the fault fired"""
    cur = [e for e in log[:pos] if e[0] != 'mark']
    if not cur: return 'no-tx'
    no = cur[-1][0]
    open_tx, writes = None, False
    for e in cur:
        if e[0] != no: continue
        if e[2] in ('COMMIT', 'ROLLBACK', 'CLOSE'): open_tx, writes = None, False
        elif isinstance(e[1], int): open_tx = e[1]; writes = writes or e[3]
    if open_tx is None: return 'no-tx'
    return 'open-write-tx' if writes else 'open-read-tx'

# ---- workers --------------------------------------------------------------------------------------------
_WORLDS = {}
def world_for(path):
    import os
    key = (os.getpid(), path)
    w = _WORLDS.get(key)
    if w is None:
        if path == 'pg':
            from vf.props import _fx_pg
            w = _fx_pg.PGWorld()
        else:
            w = fx.World('c17', define, populate)
        _WORLDS[key] = w
    return w

def reference(w, tokens, kind):
    prog = make_program(tokens, kind)
    ref = w.run(prog, observe=True, snapshots=True)
    if ref.exc is not None: return None
    pack = dict(S=snapshots(ref), ref=ref, prog=prog)
    if prog_class(tokens) == 'catch':
        i = [j for j, t in enumerate(tokens) if t in CATCH][0]
        rb = w.run(make_program(tokens[i + 1:], kind), observe=False, snapshots=True)
        if rb.exc is not None: return None
        pack['F_B'] = rb.final
    if prog_class(tokens) == 'guarded-op':
        rb = w.run(make_program(tuple(t for t in tokens if t not in GUARDED), kind), observe=True, snapshots=True)
        if rb.exc is not None: return None
        pack['S_minus'] = snapshots(rb)
    return pack

def run_task(task):
    path, tokens, kind, flags, tier = task
    tokens = tuple(tokens)
    sub = core.Sub()
    w = world_for(path)
    outcomes = set()
    stats = dict(executions=0, fired=0, plans=0)
    pack = reference(w, tokens, kind)
    stats['executions'] += 1
    if pack is None:
        sub.count('reference_run_failed')
        return dict(sub=sub.dump(), stats=stats, outcomes=[])
    ref, prog, S = pack['ref'], pack['prog'], pack['S']
    pc = prog_class(tokens)
    sub.count('%s_programs' % path)
    nwrites = sum(1 for c in ref.calls if c[0] in ('execute', 'executemany') and c[1] and fx.dbapi.is_write(c[1]))
    ncommits = sum(1 for c in ref.calls if c[0] == 'commit')
    if nwrites == 0: sub.count('shapes_without_write_or_commit')     # (a missing commit call is a symptom the oracle judges, not a guard)
    if ncommits: sub.count('programs_with_a_commit_call')
    if len(set(S)) < 2: sub.count('programs_without_visible_effect')
    # the fault-free run itself must obey the rule (observer crash plans at every call)
    for comp, k in judge(pack, ref, tokens) + (pg_judge_log(ref.notes[-1][1]) if path == 'pg' else []):
        report(sub, path, tokens, kind, {}, comp, 'none', pc, ref, k, 'no fault')
    sub.count('observer_crash_points', ref.n)
    commit_idx = [i for i, c in enumerate(ref.calls) if c[0] == 'commit']
    if path == 'pg':
        from vf.props import _fx_pg
        kinds = _fx_pg.PG_FAULT_KINDS
    else:
        kinds = fx.FAULT_KINDS
    plans = fx.single_plans(ref.n, kinds, after_commits=commit_idx)
    first_runs = {}
    for plan in plans:
        x = execute(w, path, prog, plan)
        stats['executions'] += 1; stats['plans'] += 1
        account(sub, path, pack, tokens, kind, pc, plan, x, outcomes, stats)
        (k, f), = plan.items()
        if f == kinds[0] and not isinstance(k, tuple): first_runs[k] = x.n
    if 'pairs' in flags and tier == 'thorough':
        for k1, n1 in sorted(first_runs.items()):
            for plan in fx.pair_plans(k1, kinds[0], n1, kinds if path == 'sqlite' else kinds[:1] + kinds[3:4]):
                x = execute(w, path, prog, plan)
                stats['executions'] += 1; stats['plans'] += 1
                sub.count('double_fault_plans')
                if len(x.fired) == 2: sub.count('double_fault_plans_both_fired')
                account(sub, path, pack, tokens, kind, pc, plan, x, outcomes, stats)
    if 'fork' in flags and path == 'sqlite':
        for k in range(ref.n):
            crash(sub, w, pack, tokens, kind, pc, k, False, outcomes, stats)
        for k in commit_idx:
            crash(sub, w, pack, tokens, kind, pc, k, True, outcomes, stats)
    if len(sub.samples) < 1:
        sub.sample(dict(path=path, tokens=list(tokens), session=kind, driver_calls=[fx.call_class(c) for c in ref.calls],
                        commit_points=len(S) - 1, plans=stats['plans']))
    return dict(sub=sub.dump(), stats=stats, outcomes=sorted(outcomes))

def execute(w, path, prog, plan):
    if path == 'pg':
        w.fault_log_pos = []
        from vf.props import _fx_pg
        def mk(kind):
            w.fault_log_pos.append(len(w.server.log))
            return _fx_pg.pg_exc(kind)
        x = w.run(prog, plan, observe=True, make_exc=mk)
        x.notes.append(('fault_log_pos', list(w.fault_log_pos)))
        return x
    return w.run(prog, plan, observe=True)

def account(sub, path, pack, tokens, kind, pc, plan, x, outcomes, stats):
    ref, S = pack['ref'], pack['S']
    if x.hygiene: sub.count('harness_had_to_force_cleanup')
    if not x.fired:
        sub.count('plans_not_fired'); return
    stats['fired'] += 1
    sub.count('%s_plans_fired' % path)
    site = fault_site(ref, x)
    final_idx = S.index(x.final) if x.final in S else -1
    outcomes.add('%s|%s|%s|%s|acked=%d|final=S%d' % (path, pc, site, x.exc_name(), x.acked(), final_idx))
    if x.exc is not None: sub.count('error_propagated')
    pack2 = pack
    bad = []
    if path == 'pg':
        from vf.props import _fx_pg
        log = [n for n in x.notes if isinstance(n, tuple) and n and n[0] == 'server_log'][-1][1]
        pos = [n for n in x.notes if isinstance(n, tuple) and n and n[0] == 'fault_log_pos'][-1][1]
        fclass = sorted(set('reconnectable' if f in _fx_pg.RECONNECTABLE else 'other' for _, _, f in x.fired))
        pack2 = dict(pack, may_absorb='reconnectable' in fclass)
        bad = pg_judge_log(log)
        txs = pg_tx_state(log, pos[0]) if pos else 'no-tx'
        if 'reconnectable' in fclass and x.exc is None: sub.count('pg_reconnects_absorbed')
    bad = bad + judge(pack2, x, tokens)
    if not bad: return
    # re-execute: a violation must reproduce identically before it is reported
    y = execute(sub_world(path), path, pack['prog'], plan)
    if (y.final, y.exc_name(), y.n) != (x.final, x.exc_name(), x.n):
        sub.count('nondeterministic_violation'); return
    comp, k = bad[0]
    if path == 'pg':
        sig = 'pg|%s|%s|%s' % ('+'.join(fclass), txs, 'session-continued' if x.exc is None else 'error-propagated')
        if 'reconnectable' in fclass and pg_reconnect_in_write_tx(log): sig = 'pg|reconnectable|open-write-tx|session-continued'
        else: sig += '|' + comp
        report(sub, path, tokens, kind, plan, comp, site, pc, x, k, None, sig=sig, extra=dict(server_log=log[:60], all=[c for c, _ in bad]))
    else:
        sig = None
        if pc == 'guarded-op' and any(e[0] == 'caught' for e in x.events) and x.fired:
            # which part of the guarded db.execute() failed: its own statement (BEGIN / cursor / execute) or the
            # automatic flush of the session's pending changes that precedes it
            rng = [n for n in pack['ref'].notes if isinstance(n, tuple) and n[0] == 'guarded-range'][0]
            calls = pack['ref'].calls
            own = {rng[2] - 2, rng[2] - 1}
            if rng[1] + 1 < len(calls) and (calls[rng[1] + 1][1] or '').startswith('BEGIN'): own |= {rng[1], rng[1] + 1}
            key = x.fired[0][0]
            if (key[1] if isinstance(key, tuple) else key) not in own:
                sig = 'sqlite|guarded-op|error-in-the-automatic-flush-caught|session-goes-on|%s' % comp.split(':')[-1]
        report(sub, path, tokens, kind, plan, comp, site, pc, x, k, None, sig=sig)

def sub_world(path): return world_for(path)

def report(sub, path, tokens, kind, plan, comp, site, pc, x, k, note, sig=None, extra=None):
    if sig is None: sig = '%s|%s|at=%s|%s' % (path, comp, site, pc)
    case = dict(path=path, tokens=list(tokens), session=kind, plan=fx.plan_key(plan), component=comp, crash_point=k,
                exception=x.exc_name() if x is not None else None,
                acked=x.acked() if x is not None else None,
                driver_calls=[fx.call_class(c) for c in x.calls] if x is not None else None,
                final=x.final if x is not None else None)
    if extra: case.update(extra)
    sub.violation(sig, case, '%s program %s in %s session, plan %s: %s%s (exception %s)'
                  % (path, '/'.join(tokens), kind, fx.plan_key(plan), comp, '' if k is None else ' before driver call %d' % k,
                     case['exception']))

def crash(sub, w, pack, tokens, kind, pc, k, after, outcomes, stats):
    S, ref = pack['S'], pack['ref']
    r = w.crash_run(pack['prog'], k, after)
    stats['executions'] += 1; stats['plans'] += 1
    sub.count('fork_crash_plans')
    if r['code'] != 77:
        sub.count('fork_crash_not_reached'); return
    stats['fired'] += 1
    sub.count('fork_crashes_fired')
    if r['journal_left']: sub.count('fork_crashes_leaving_a_hot_journal')
    site = ('after-' if after else '') + fx.call_class(ref.calls[k])
    idx = S.index(r['final']) if r['final'] in S else -1
    outcomes.add('sqlite|%s|%s|crash|acked=%d|final=S%d' % (pc, site, r['acked'], idx))
    if any(t in CATCH + GUARDED for t in tokens) and 'x' in r['progress']: return
    ok = allowed_states(S, r['acked'], r['commit_issued'] or after)
    if r['final'] not in ok:
        comp = 'crash:' + classify(S, r['final'], r['acked'])
        sig = 'sqlite|%s|at=%s|%s' % (comp, site, pc)
        sub.violation(sig, dict(path='sqlite', tokens=list(tokens), session=kind, crash_at=k, after=after, component=comp,
                                acked=r['acked'], progress=r['progress'], final=r['final']),
                      'program %s in %s session, process killed at driver call %d (%s): committed rows afterwards are %s'
                      % ('/'.join(tokens), kind, k, site, comp))

# ---- run / replay ----------------------------------------------------------------------------------------
def chunk_runner(chunk):
    return [run_task(t) for t in chunk]

def run(ctx):
    tasks = []
    for path in ('sqlite', 'pg'):
        for tokens, flags in programs(ctx.tier, path):
            for kind in KINDS:
                tasks.append((path, tokens, kind, flags, ctx.tier))
    tasks = ctx.shuffled(tasks)
    nchunks = max(1, min(len(tasks), ctx.nworkers * (4 if ctx.quick else 12)))
    chunks = [tasks[i::nchunks] for i in range(nchunks)]
    evaluations = fired = 0
    outcomes = set()
    for res in ctx.pmap(chunk_runner, chunks):
        for r in res:
            core.absorb(ctx, r['sub'])
            evaluations += r['stats']['executions']; fired += r['stats']['fired']
            outcomes.update(r['outcomes'])
    c = ctx.counters
    ctx.guard('sqlite plans in which the fault fired', c.get('sqlite_plans_fired', 0), 1000)
    ctx.guard('pg plans in which the fault fired', c.get('pg_plans_fired', 0), 1000)
    ctx.guard('real (fork) crashes that fired', c.get('fork_crashes_fired', 0), 100)
    ctx.guard('distinct post-fault outcomes', len(outcomes), 50)
    ctx.guard('executions in which the error left the session', c.get('error_propagated', 0), 1000)
    ctx.guard('pg reconnects absorbed by Pony', c.get('pg_reconnects_absorbed', 0), 10)
    ctx.guard('every program issues a write statement (negated count)', -c.get('shapes_without_write_or_commit', 0), 0)
    ctx.guard('every program changes committed rows (negated count)', -c.get('programs_without_visible_effect', 0), 0)
    ctx.guard('reference runs that failed (negated count)', -c.get('reference_run_failed', 0), 0)
    ctx.guard('violations that did not reproduce (negated count)', -c.get('nondeterministic_violation', 0), 0)
    if not ctx.quick:
        ctx.guard('double-fault plans where both faults fired', c.get('double_fault_plans_both_fired', 0), 1000)
    ctx.cov['distinct_post_fault_outcomes'] = len(outcomes)
    ctx.cov['tasks'] = len(tasks)
    ctx.cov['bounds'] = ('programs of <= 3 write operations (+ optional commit / guarded commit) x 3 session kinds; every single '
                         'driver-call index x 3 (SQLite) / 5 (PG model) fault classes + lost commit acknowledgement; '
                         + ('real fork crashes for a subset of programs' if ctx.quick else
                            'fault pairs for flagged programs; real fork crashes at every call index of all single-operation programs, all pairs of core operations and half of the core pairs with a commit in the middle'))
    ctx.assume('SQLite: real engine on a /dev/shm file with the default rollback journal; power loss / fsync behaviour is not modelled (process death only)')
    ctx.assume('PostgreSQL: MODEL-BASED - fake psycopg2 connection (autocommit, commit, rollback, close; implicit BEGIN at the first statement) '
               'with SQLite as relational substrate; server-side behaviour is out of reach')
    ctx.assume('an injected error replaces the driver call (or, for lost acknowledgements, follows a commit that really happened)')
    return dict(evaluations=evaluations, distinct_nontrivial=fired,
                rule='one evaluation = one execution of a write program under one fault/crash plan (reference runs included); '
                     'non-trivial = the planned fault or crash actually fired inside a session that issues >= 1 write and >= 1 commit call; '
                     'plans are distinct by construction (program, session kind, call index, fault class)')

def replay(ctx, case):
    path = case['path']
    w = world_for(path)
    tokens = tuple(case['tokens'])
    pack = reference(w, tokens, case['session'])
    if 'crash_at' in case:
        r = w.crash_run(pack['prog'], case['crash_at'], case.get('after', False))
        ok = r['final'] in allowed_states(pack['S'], r['acked'], r['commit_issued'] or case.get('after', False))
        print('crash at', case['crash_at'], 'progress', r['progress'], 'final', r['final'])
        return ok
    plan = fx.plan_from_key(case['plan'])
    x = execute(w, path, pack['prog'], plan)
    print('driver calls:'); [print(' ', i, fx.call_class(c)) for i, c in enumerate(x.calls)]
    print('fired', x.fired, 'exception', repr(x.exc), 'acked', x.acked())
    print('snapshots', pack['S']); print('final', x.final)
    bad = judge(pack, x, tokens)
    if path == 'pg':
        log = [n for n in x.notes if isinstance(n, tuple) and n and n[0] == 'server_log'][-1][1]
        for e in log: print('  server:', e)
        bad += pg_judge_log(log)
        from vf.props import _fx_pg
        if any(f in _fx_pg.RECONNECTABLE for _, _, f in x.fired): bad = [b for b in bad if b[0] != 'error-swallowed']
    print('violations', bad)
    return not bad
