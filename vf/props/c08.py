"""C08 Validation enforces declared attribute constraints.

Bounded-exhaustive product: declarations x candidate values x entry points.

  declarations   int: Required/Optional x size {absent,8,16,24,32,64} x unsigned {absent,False,True} x
                 min {None,-1,0,1} x max {None,-1,0,1,5}; float and Decimal(precision, scale) with the same
                 kind of bound grids (zero, negative, fractional, string bounds); str: max_len {absent,0,1,3}
                 positional or keyword x autostrip {absent,True,False} x nullable {absent,True,False}, LongStr;
                 py_check (returns False / raises ValueError) and default on top; bool, bytes, date, time,
                 datetime, timedelta, UUID with Required/Optional/py_check; plus malformed declarations
                 (bounds outside the size range, wrong option types, unknown options, scale > precision ...).
                 Every declaration is mapped for real: Database + entity + bind('sqlite') + generate_mapping.
  values         b-1, b, b+1 around every bound, size limit and length limit (ulp / last-digit steps for float
                 and Decimal, whitespace-padded strings around max_len), None, '', whitespace, wrong types,
                 digit strings, bool, __index__ objects, subclasses, nan/inf.
  entry points   E(a=v), E() with the default, obj.a = v, obj.set(a=v), E.get(a=v), E.select(a=v)
  indirect       the same value arriving as a RAW KEY VALUE of a relationship: the declaration is the primary key of P
  routes         (and part of the composite key (a, int) of K); four shapes - ref: Q.r = Required(P), raw v; ref2:
                 PP(p = PrimaryKey(P)), Q.r = Required(PP), raw v (the target's key is itself a reference, depth 2);
                 cref: C(PrimaryKey(p -> P, n)), raw (v, 1); ckey: Q.r = Required(K), raw (v, 1) - each through
                 Q(r=raw), q.r = raw, q.set(r=raw), Q.get(r=raw), Q.select(r=raw), for every candidate value
                 (tuples excepted: key syntax) of a grid of key-capable declarations (quick: 25 over int / str /
                 Decimal / date / datetime / UUID / bool / bytes / time / timedelta with min, max, size, unsigned,
                 max_len, autostrip, py_check; thorough: additionally every consistent Required declaration above).
                 Same reference verdicts: reject -> every route raises; accept -> the innermost key of the referenced
                 object is exactly the normalised value and, with the whole chain stored under the normalised value,
                 the look-ups by the raw value find it; undecided -> sound, and equal to what P(k=v) does.

Oracle: vf/props/_c08_ref.py - a three-valued reference predicate written from the API reference
(accept / reject / documented behaviour does not decide). For 'accept' every entry point must accept
and store exactly the normalised value, and the look-ups must find a stored object by it; for 'reject'
every entry point must raise; for undecided values both are fine but an accepted value must be *sound*
(declared type, inside every bound) and all entry points must agree with each other. A declaration that
contradicts itself must be refused at mapping time.

Signature = type : violated constraint (with the sign class of the bound) or position of the value :
entry points that misbehave : kind of misbehaviour.
"""
import os, math, warnings
from decimal import Decimal
from datetime import date, time, datetime, timedelta
from uuid import UUID
from vf import core
from vf.props import _c08_ref as R

LEVEL = 'exploration'
KINDS = ('Required', 'Optional')
WRITES = ('ctor', 'assign', 'set')
LOOKUPS = ('get', 'select')
ABSENT = '<absent>'

class Idx(object):
    """An object that is an integer by the __index__ protocol only."""
    def __init__(self, n): self.n = n
    def __index__(self): return self.n
    def __repr__(self): return 'Idx(%r)' % self.n
class IntSub(int):
    def __repr__(self): return 'IntSub(%d)' % int(self)
class StrSub(str):
    def __repr__(self): return 'StrSub(%s)' % str.__repr__(self)
class Foreign(object):
    """A value of a type no attribute has anything to do with."""
    def __repr__(self): return 'Foreign()'

_NS = dict(datetime=__import__('datetime'), Decimal=Decimal, UUID=UUID, nan=float('nan'), inf=float('inf'),
           Idx=Idx, IntSub=IntSub, StrSub=StrSub, Foreign=Foreign, bytearray=bytearray, __builtins__={})
def enc(v): return repr(v)
def dec(s): return eval(s, dict(_NS))

# ---- declarations ----------------------------------------------------------------------------------------
def D(kind, tkey, args=(), kw=None, check=None):
    return dict(kind=kind, tkey=tkey, args=tuple(args), kw=dict(kw or {}), check=check)

def decl_text(d):
    parts = [d['tkey']] + [repr(a) for a in d['args']] + ['%s=%r' % kv for kv in sorted(d['kw'].items())]
    if d['check']: parts.append('py_check=<%s>' % d['check'])
    return '%s(%s)' % (d['kind'], ', '.join(parts))

def declarations(quick):
    out = []
    add = lambda *a, **k: out.append(D(*a, **k))
    def kwof(**k): return dict((a, b) for a, b in k.items() if b is not ABSENT and b is not None)
    # --- int: size x unsigned x min x max
    sizes = (ABSENT, 8, 64) if quick else (ABSENT, 8, 16, 24, 32, 64)
    for kind in KINDS:
        for size in sizes:
            if quick and kind == 'Optional' and size is not ABSENT: continue     # Required/Optional only matters for None and ''
            for uns in (ABSENT, False, True):
                for mn in (None, -1, 0, 1) if quick else (None, -5, -1, 0, 1, 5):
                    for mx in (None, -1, 0, 1, 5) if quick else (None, -5, -1, 0, 1, 5, 100):
                        add(kind, 'int', (), kwof(size=size, unsigned=uns, min=mn, max=mx))
    if not quick:       # bounds around the size limits themselves
        for size, uns in ((8, False), (8, True), (16, True), (64, False)):
            lo, hi = (0, 2 ** size - 1) if uns else (-(2 ** (size - 1)), 2 ** (size - 1) - 1)
            for mn in (None, lo - 1, lo, lo + 1):
                for mx in (None, hi - 1, hi, hi + 1):
                    add('Required', 'int', (), kwof(size=size, unsigned=uns, min=mn, max=mx))
    for kw in (dict(min=1.5), dict(min='1'), dict(max=[5]), dict(size=7), dict(size='8'), dict(size=0), dict(size=8.0),
               dict(unsigned='yes'), dict(unsigned=1), dict(foo=1), dict(max_len=3), dict(precision=2),
               dict(min=True), dict(min=-2 ** 40), dict(max=2 ** 40), dict(size=64, max=2 ** 63), dict(size=64, min=-2 ** 63 - 1)):
        add('Required', 'int', (), kw)
    add('Required', 'int', (8,), {})
    # --- float
    fb = (None, -1, 0, 1, -0.5, 0.5, 0.0) if quick else (None, -1, 0, 1, -0.5, 0.5, 0.0, -0.0, 1e-300, -1e300, 5, 2 ** 53)
    for kind in KINDS:
        for mn in fb:
            for mx in (None, -1, 0, 1, 5, 0.5, 0.0, -0.0):
                add(kind, 'float', (), kwof(min=mn, max=mx))
    for kw in (dict(min='abc'), dict(max='abc'), dict(min='1.5'), dict(min=[1]), dict(size=8), dict(foo=1), dict(max_len=1)):
        add('Required', 'float', (), kw)
    # --- Decimal
    for kind in KINDS:
        for args in ((), (5, 1), (3, 3), (10, 4)):
            if quick and kind == 'Optional' and args: continue
            for mn in (None, -1, 0, 1, Decimal('0.5'), '0.5', Decimal(0)):
                for mx in (None, -1, 0, 1, 5, Decimal('0.5'), Decimal('0.0')):
                    if quick and args in ((3, 3), (10, 4)) and (mn not in (None, 0) or mx not in (None, 0, 1)): continue
                    add(kind, 'Decimal', args, kwof(min=mn, max=mx))
    for args, kw in (((0, 0), {}), ((2, 3), {}), ((5, 0), {}), ((-1, 1), {}), (('5', 1), {}), ((5, 1, 1), {}), ((5, -1), {}),
                     ((5, 1.0), {}), ((), dict(precision=5.0)), ((), dict(precision=5, scale=1)), ((), dict(scale=3, precision=2)),
                     ((), dict(min='abc')), ((), dict(max=[1])), ((), dict(size=8)), ((), dict(foo=1))):
        add('Required', 'Decimal', args, kw)
    # --- str
    for kind in KINDS:
        for form, ml in ((None, ABSENT), ('pos', 0), ('pos', 1), ('pos', 3), ('kw', 0), ('kw', 1), ('kw', 3)) + \
                        (() if quick else (('pos', 2), ('pos', 10), ('kw', 2), ('kw', 255))):
            for strip in (ABSENT, True, False):
                for nul in ((ABSENT,) if kind == 'Required' else (ABSENT, True, False)):
                    add(kind, 'str', (ml,) if form == 'pos' else (), kwof(max_len=ml if form == 'kw' else ABSENT, autostrip=strip, nullable=nul))
        for strip in (ABSENT, False):
            add(kind, 'LongStr', (), kwof(autostrip=strip))
    for args, kw in (((), dict(max_len='3')), ((), dict(max_len=1.5)), ((3, 4), {}), ((3,), dict(max_len=3)), ((), dict(max_len=-1)),
                     (('3',), {}), ((), dict(foo=1)), ((), dict(min=1)), ((), dict(size=8)), ((), dict(max_len=True))):
        add('Required', 'str', args, kw)
    add('Required', 'LongStr', (), dict(max_len=3)); add('Required', 'LongStr', (3,), {})
    add('Required', 'str', (), dict(nullable=True)); add('Required', 'int', (), dict(nullable=True))
    add('Optional', 'int', (), dict(nullable=False)); add('Optional', 'float', (), dict(nullable=False))
    # --- py_check on top of bounds
    for kind in KINDS:
        for check in ('ne', 'raise'):
            for kw in ({}, dict(min=0), dict(max=5), dict(min=0, max=5), dict(size=8), dict(min=1, max=1)):
                add(kind, 'int', (), kw, check)
            for kw in ({}, dict(min=0.0), dict(max=1.0)):
                add(kind, 'float', (), kw, check)
            for args, kw in (((), {}), ((5, 1), dict(max=1))):
                add(kind, 'Decimal', args, kw, check)
            for args, kw in (((), {}), ((3,), {}), ((), dict(autostrip=False)), ((3,), dict(autostrip=False)), ((2,), {})):
                add(kind, 'str', args, kw, check)
            add(kind, 'LongStr', (), {}, check)
    add('Required', 'int', (), {}, 'notcallable'); add('Optional', 'str', (), {}, 'notcallable')
    # --- defaults
    for kind in KINDS:
        for kw in (dict(default=3), dict(default=3, max=5), dict(default=10, max=5), dict(default=-1, min=0), dict(default=0, min=0),
                   dict(default=None), dict(default='3'), dict(default=3, size=8), dict(default=300, size=8), dict(default=1.5)):
            add(kind, 'int', (), kw)
        for args, kw in (((), dict(default='abc')), ((3,), dict(default='abc')), ((3,), dict(default='abcd')), ((3,), dict(default=' abc ')),
                         ((), dict(default='')), ((), dict(default=None)), ((), dict(default=' ')), ((), dict(default=None, nullable=True)),
                         ((), dict(default=5))):
            add(kind, 'str', args, kw)
        add(kind, 'float', (), dict(default=0.5, max=0)); add(kind, 'float', (), dict(default=-0.5, max=0))
        add(kind, 'Decimal', (), dict(default=Decimal('1.5'), max=1)); add(kind, 'Decimal', (), dict(default=Decimal('0.5'), max=1))
        add(kind, 'int', (), dict(default=1), 'ne'); add(kind, 'int', (), dict(default=2), 'ne')
    # --- the other basic types: type, required-ness, nullability, py_check
    for kind in KINDS:
        for t in ('bool', 'bytes', 'date', 'time', 'datetime', 'timedelta', 'UUID'):
            for check in (None, 'ne', 'raise'):
                add(kind, t, (), {}, check)
            add('Required', t, (), dict(min=1))
    return out

# ---- candidate values ----------------------------------------------------------------------------------------
COMMON = [None, '', ' ', 'x', '1', ' 1 ', '-1', '1.0', '1.5', '0', 'abc', True, False, 0, 1, -1, 2, 1.0, 1.5, -0.0,
          Decimal(1), Decimal('1.5'), b'1', b'', [1], (1,), {}, Idx(1), Idx(10 ** 12), IntSub(1), StrSub('a'), StrSub(' a '),
          date(2000, 1, 1), datetime(2000, 1, 1), time(1, 1, 1), timedelta(1), UUID(int=1), Foreign()]

def candidates(d, quick):
    t, kw = d['tkey'], d['kw']
    vals = list(COMMON)
    def num(b):
        return b if isinstance(b, (int, float, Decimal)) and not isinstance(b, bool) else None
    if t == 'int':
        lo, hi, _ = R.int_range(d)
        bs = set([0, lo, hi, -2 ** 31, 2 ** 31 - 1, -2 ** 63, 2 ** 63 - 1, 2 ** 64 - 1])
        for k in ('min', 'max', 'default'):
            if type(kw.get(k)) is int: bs.add(kw[k])
        for b in sorted(bs): vals += [b - 1, b, b + 1]
        vals += [10 ** 30, -10 ** 30, '127', '128', '-129', '255', '256', '+1', '1_0', '0x1', '١', 'inf', float('nan'), float('inf'), 1e30]
    elif t == 'float':
        bs = set([0.0])
        for k in ('min', 'max', 'default'):
            b = kw.get(k)
            if isinstance(b, str):
                try: b = float(b)
                except ValueError: b = None
            if num(b) is not None: bs.add(float(b))
        for b in sorted(bs):
            vals += [b, math.nextafter(b, math.inf), math.nextafter(b, -math.inf), b + 0.5, b - 0.5, b + 1, b - 1, int(b), int(b) + 1, int(b) - 1]
        vals += [float('nan'), float('inf'), float('-inf'), 5e-324, -5e-324, 1.7976931348623157e308, 2 ** 53, 2 ** 53 + 1, 10 ** 400, -10 ** 400,
                 '1e3', 'nan', 'inf', '-0.5', '0.5', Decimal('0.5'), Decimal('-0.5'), 0.1 + 0.2]
    elif t == 'Decimal':
        scale = d['args'][1] if len(d['args']) > 1 else kw.get('scale', 2)
        if type(scale) is not int or scale < 0 or scale > 50: scale = 2
        u = Decimal(10) ** -scale
        bs = set([Decimal(0)])
        for k in ('min', 'max', 'default'):
            b = kw.get(k)
            try:
                if b is not None and not isinstance(b, bool): bs.add(Decimal(b))
            except Exception: pass
        for b in sorted(bs):
            vals += [b, b + u, b - u, b + u / 100, b - u / 100, b + u / 2, b - u / 2, b + 1, b - 1, int(b), int(b) + 1, int(b) - 1, float(b), float(b) + 0.5, float(b) - 0.5]
        vals += [Decimal('NaN'), Decimal('Infinity'), Decimal('-Infinity'), Decimal('-0'), Decimal('1E+3'), Decimal('123456.7'), Decimal('0.05'),
                 '0.5', '-0.5', '1e3', 'NaN', 0.1, 0.5, -0.5, float('nan'), float('inf'), 10 ** 30]
    elif t in ('str', 'LongStr'):
        ml = R.max_len_of(d)
        Ls = set([1, 3])
        if type(ml) is int and 0 <= ml < 100: Ls.add(ml)
        for L in sorted(Ls):
            for n in (L - 1, L, L + 1):
                if n < 0: continue
                s = 'abcdefghij'[:n] if n <= 10 else 'a' * n
                vals += [s, ' ' + s, s + ' ', ' ' + s + ' ', '\t' + s + '\n', '\xe9' * n, s + '\xa0', '　' + s, s[:1] + ' ' + s[1:]]
        vals += ['  ', '\t\n', '\x00', ' \x00 ', 'a' * 300, '\U0001F600' * 3, ' abc', 'abc ', ' abc ', 'abcd', ' abcd ', 'ab']
    else:
        vals += ['2000-01-01', '2000-01-01 10:20:30', '10:20:30', '1:02:03', '12345678123456781234567812345678', 'zz',
                 b'0123456789abcdef', bytearray(b'abc'), b'abc', 10 ** 40, 2 ** 128, -5, date(1, 1, 1), date(9999, 12, 31),
                 datetime(2000, 1, 1, 1, 1, 1, 5), time(1, 1, 1, 5), timedelta(0), timedelta(-1), timedelta(1, 1, 1), UUID(int=0),
                 time(0, 0), datetime(1, 1, 1), 0.5]
    seen, out = set(), []
    for v in vals:
        k = (type(v).__name__, repr(v))
        if k not in seen: seen.add(k); out.append(v)
    return out

# ---- running one declaration --------------------------------------------------------------------------------------
def _pytypes():
    from pony import orm
    t = dict(R.TYPES); t['LongStr'] = orm.LongStr
    return t

def build(d):
    """-> (db, E) ; raises whatever Pony raises at mapping time."""
    from pony import orm
    warnings.simplefilter('ignore')
    db = orm.Database()
    kw = dict(d['kw'])
    if d['check']: kw['py_check'] = R.py_check_fn(d)
    attr = getattr(orm, d['kind'])(_pytypes()[d['tkey']], *d['args'], **kw)
    E = type('E', (db.Entity,), dict(id=orm.PrimaryKey(int), a=attr, b=orm.Optional(int)))
    db.bind('sqlite', ':memory:')
    db.generate_mapping(create_tables=True)
    return db, E

def attempt(f):
    try: return ('ok', f())
    except Exception as e: return ('exc', type(e).__name__)

OMIT = object()
def probe(E, v, base):
    """All entry points for one value. base: an acceptable value for a second object, OMIT, or None (no base)."""
    from pony.orm import db_session, rollback, flush
    res = {}
    with db_session:
        res['ctor'] = attempt(lambda: E(id=1, a=v).a)
        rollback()
    if base is not None:
        mk = (lambda: E(id=2)) if base is OMIT else (lambda: E(id=2, a=base))
        with db_session:
            try: o = mk()
            except Exception: o = None      # the base value itself is refused: reported by its own 'ctor' case
            def assign():
                o.a = v
                return o.a
            if o is not None: res['assign'] = attempt(assign)
            rollback()
        with db_session:
            try: o = mk()
            except Exception: o = None
            def set_():
                o.set(a=v)
                return o.a
            if o is not None: res['set'] = attempt(set_)
            rollback()
    with db_session:                      # look-ups against the empty table: validation + parameter conversion only
        def get():
            o = E.get(a=v)
            return None if o is None else o.id
        res['get'] = attempt(get)
        if res['get'][0] == 'exc': rollback()
        res['select'] = attempt(lambda: sorted(o.id for o in E.select(a=v)[:]))
        rollback()
    return res

def find(E, v):
    """Store an object with the value, then look it up by the same value. -> None (could not store) or dict."""
    from pony.orm import db_session, rollback, flush
    with db_session:
        try:
            E(id=1, a=v); flush()
        except Exception:
            rollback(); return None
        out = {}
        def get():
            o = E.get(a=v)
            return None if o is None else o.id
        out['get'] = attempt(get)
        out['select'] = attempt(lambda: sorted(o.id for o in E.select(a=v)[:]))
        rollback()
    return out

def same_value(a, b):
    if a is None or b is None: return a is None and b is None
    if isinstance(a, (float, Decimal)) and type(a) is type(b) and a != a and b != b: return True
    return type(a) is type(b) and a == b and repr(a) == repr(b) or (isinstance(a, Decimal) and isinstance(b, Decimal) and a == b)

def exotic(v):
    """Values whose look-up can fail *after* validation for storage reasons (C07's business)."""
    if isinstance(v, float): return not math.isfinite(v)
    if isinstance(v, Decimal): return not v.is_finite()
    if isinstance(v, int): return abs(int(v)) >= 2 ** 63
    if isinstance(v, str): return any(0xD800 <= ord(c) <= 0xDFFF for c in v)
    return hasattr(v, '__index__') and abs(v.__index__()) >= 2 ** 63

def exact_lookup(d, nv):
    """Look-up by equality is well defined for the normalised value (no rounding on the way to the database)."""
    if isinstance(nv, float): return math.isfinite(nv)
    if isinstance(nv, Decimal):
        scale = d['args'][1] if len(d['args']) > 1 else d['kw'].get('scale', 2)
        return nv.is_finite() and abs(nv) < 10 ** 12 and nv == R.quantized(nv, scale)
    if isinstance(nv, (time, datetime, timedelta)): return False      # SQLite time types: C07's known findings
    if isinstance(nv, date): return nv.year >= 1000
    return True

def entries_label(bad, judged):
    """Entry-point *class*: the writes share Attribute.validate with the look-ups, so look-ups failing along
    with every write add nothing to the shape."""
    bad = set(bad)
    w = set(e for e in judged if e in WRITES); l = set(e for e in judged if e in LOOKUPS)
    if w and bad >= w: return 'writes'
    if l and bad == l: return 'look-ups only'
    return ','.join(sorted(bad))

def type_label(d, why):
    t = d['tkey']
    if 'None' in why or 'empty' in why or 'nullable' in why: return '%s %s' % (d['kind'], t)
    return t

def judge(sub, E, d, v, res):
    """Compare what the entry points did with the reference verdict; record violations in sub."""
    ver, info = R.verdict(d, v)
    case = dict(decl=enc(d), value=enc(v))
    text = '%s <- %s' % (decl_text(d), enc(v)[:60])
    judged = [e for e in WRITES + LOOKUPS if e in res]
    sub.count('verdict:' + ver)
    groups = {}     # (why, kind of misbehaviour) -> entries
    def bad(why, kind, e): groups.setdefault((why, kind), []).append(e)
    for e in judged:
        st, val = res[e]
        sub.count('evaluations')
        if ver == 'accept':
            if st == 'exc': bad(R.position(d, info), 'refuses an acceptable value', e)
            elif e in WRITES and not same_value(val, info): bad(R.position(d, info), 'stores a different value', e)
        elif ver == 'reject':
            sub.count('must_reject_evaluations')
            if st == 'ok': bad(info, 'accepts it', e)
        else:
            if st == 'ok' and e in WRITES:
                sub.count('undecided_accepted')
                s = R.sound(d, val)
                if s: bad(s, 'accepts it', e)           # the stored value violates constraint s
            elif st == 'exc': sub.count('undecided_refused')
    if ver == 'accept' and not groups and exact_lookup(d, info):
        found = find(E, v)
        if found is None: sub.count('find_fixture_refused')
        else:
            for e in LOOKUPS:
                sub.count('evaluations'); sub.count('lookup_must_find')
                st, val = found[e]
                if st == 'exc' or ((val != 1) if e == 'get' else (1 not in val)):
                    bad(R.position(d, info), 'does not find the object stored with this value', e)
                    res = dict(res); res['find:' + e] = found[e]
    for (why, kind), es in sorted(groups.items()):
        sig = '%s:%s:%s:%s' % (type_label(d, why), why, entries_label(es, judged), kind)
        sub.violation(sig, case, '%s: reference says %s (%s); %s: %s; observed %s'
                      % (text, ver, info if ver != 'accept' else why, ', '.join(es), kind, dict((e, x) for e, x in res.items())))
    # differential between entry points (also for undecided values)
    if not groups:
        why = R.position(d, info) if ver == 'accept' else info
        label = 'undecided (%s)' % why if ver == 'either' else why
        ws = [res[e] for e in judged if e in WRITES]
        sub.count('differential_comparisons')
        if ws and (len(set(w[0] for w in ws)) > 1 or (ws[0][0] == 'ok' and not all(same_value(ws[0][1], w[1]) for w in ws))):
            sub.violation('%s:%s:write entry points disagree with each other' % (d['tkey'], label), case,
                          '%s: %s' % (text, dict((e, res[e]) for e in judged)))
        elif ws and not exotic(v) and not (ws[0][0] == 'ok' and exotic(ws[0][1])):
            ls = [res[e][0] for e in judged if e in LOOKUPS]
            if any(l != ws[0][0] for l in ls):
                sub.violation('%s:%s:look-ups and writes disagree on acceptance' % (d['tkey'], label), case,
                              '%s: %s' % (text, dict((e, res[e]) for e in judged)))

# ---- indirect routes: a constrained value arriving as a RAW KEY VALUE of a reference -----------------------------------
# P(k = PrimaryKey(<declaration>));  K(a = Required(<declaration>), n = Required(int), PrimaryKey(a, n))
#   ref   Q1.r = Required(P)                          raw key v        (depth 1)
#   ref2  PP(p = PrimaryKey(P)); Q2.r = Required(PP)  raw key v        (depth 2: the target's primary key is itself a reference)
#   cref  C(PrimaryKey(p -> P, n)); Q3.r = Required(C)  raw key (v, 1)   (composite key containing a reference)
#   ckey  Q4.r = Required(K)                          raw key (v, 1)   (composite key containing the attribute)
SHAPES = ('ref', 'ref2', 'cref', 'ckey')
INNER = dict(ref=lambda q: q.r.k, ref2=lambda q: q.r.p.k, cref=lambda q: q.r.p.k, ckey=lambda q: q.r.a)
def raw_key(shape, v): return v if shape in ('ref', 'ref2') else (v, 1)

def indirect_declarations(quick):
    out = []
    add = lambda *a, **k: out.append(D('Required', *a, **k))
    for kw in ({}, dict(min=1), dict(max=5), dict(min=1, max=1000), dict(size=8), dict(size=8, unsigned=True), dict(size=64, min=-1)):
        add('int', (), kw)
    add('int', (), dict(min=0, max=5), 'ne'); add('int', (), {}, 'raise')
    for args, kw in (((), {}), ((3,), {}), ((3,), dict(autostrip=False)), ((), dict(max_len=1)), ((), dict(autostrip=False)), ((4,), dict(autostrip=True))):
        add('str', args, kw)
    add('str', (3,), {}, 'ne')
    add('Decimal', (), {}); add('Decimal', (5, 1), dict(min=0, max=1))
    for t in ('date', 'datetime', 'UUID', 'bool', 'bytes', 'timedelta', 'time'): add(t, (), {})
    if not quick:
        for d in declarations(False):
            if d['kind'] == 'Required' and 'default' not in d['kw'] and 'nullable' not in d['kw'] and R.decl_verdict(d)[0] == 'accept':
                out.append(d)
    return out

def build_indirect(d):
    from pony import orm
    warnings.simplefilter('ignore')
    db = orm.Database()
    T = _pytypes()[d['tkey']]
    def opts():
        kw = dict(d['kw'])
        if d['check']: kw['py_check'] = R.py_check_fn(d)
        return kw
    P = type('P', (db.Entity,), dict(k=orm.PrimaryKey(T, *d['args'], **opts()), q1s=orm.Set('Q1'), pp=orm.Optional('PP'), cs=orm.Set('C')))
    Q1 = type('Q1', (db.Entity,), dict(id=orm.PrimaryKey(int), r=orm.Required('P')))
    PP = type('PP', (db.Entity,), dict(p=orm.PrimaryKey('P'), q2s=orm.Set('Q2')))
    Q2 = type('Q2', (db.Entity,), dict(id=orm.PrimaryKey(int), r=orm.Required('PP')))
    ns = dict(p=orm.Required('P'), n=orm.Required(int), q3s=orm.Set('Q3')); ns['_pk_'] = None
    class C(db.Entity):
        p = orm.Required('P'); n = orm.Required(int); q3s = orm.Set('Q3')
        orm.PrimaryKey(p, n)
    Q3 = type('Q3', (db.Entity,), dict(id=orm.PrimaryKey(int), r=orm.Required('C')))
    class K(db.Entity):
        a = orm.Required(T, *d['args'], **opts()); n = orm.Required(int); q4s = orm.Set('Q4')
        orm.PrimaryKey(a, n)
    Q4 = type('Q4', (db.Entity,), dict(id=orm.PrimaryKey(int), r=orm.Required('K')))
    db.bind('sqlite', ':memory:')
    db.generate_mapping(create_tables=True)
    return db, dict(P=P, PP=PP, C=C, K=K, ref=Q1, ref2=Q2, cref=Q3, ckey=Q4)

def probe_indirect(M, v, base):
    """every raw-key route for one value -> {(shape, entry point): outcome}, plus ('direct', 'ctor')"""
    from pony.orm import db_session, rollback
    res = {}
    with db_session:
        res[('direct', 'ctor')] = attempt(lambda: M['P'](k=v).k)
        rollback()
        for shape in SHAPES:
            Q, rv, inner = M[shape], raw_key(shape, v), INNER[shape]
            res[(shape, 'ctor')] = attempt(lambda: inner(Q(id=1, r=rv)))
            rollback()
            if base is not None:
                for entry in ('assign', 'set'):
                    try: o = Q(id=2, r=raw_key(shape, base))
                    except Exception: o = None
                    def write():
                        if entry == 'assign': o.r = rv
                        else: o.set(r=rv)
                        return inner(o)
                    if o is not None: res[(shape, entry)] = attempt(write)
                    rollback()
            def get():
                o = Q.get(r=rv)
                return None if o is None else o.id
            res[(shape, 'get')] = attempt(get)
            rollback()
            res[(shape, 'select')] = attempt(lambda: sorted(o.id for o in Q.select(r=rv)[:]))
            rollback()
    return res

def find_indirect(M, nv, v):
    """store the whole chain under the normalised value, then look every referencing object up by the raw value"""
    from pony.orm import db_session, rollback, flush
    with db_session:
        try:
            p = M['P'](k=nv); M['ref'](id=1, r=p); M['ref2'](id=1, r=M['PP'](p=p)); M['cref'](id=1, r=M['C'](p=p, n=1))
            M['ckey'](id=1, r=M['K'](a=nv, n=1)); flush()
        except Exception:
            rollback(); return None
        out = {}
        for shape in SHAPES:
            Q, rv = M[shape], raw_key(shape, v)
            def get():
                o = Q.get(r=rv)
                return None if o is None else o.id
            out[(shape, 'get')] = attempt(get)
            out[(shape, 'select')] = attempt(lambda: sorted(o.id for o in Q.select(r=rv)[:]))
        rollback()
    return out

def judge_indirect(sub, M, d, v, res):
    ver, info = R.verdict(d, v)
    case = dict(decl=enc(d), value=enc(v), route='raw-key')
    text = '%s as a raw key value <- %s' % (decl_text(d), enc(v)[:60])
    sub.count('raw_key_verdict:' + ver)
    groups = {}     # (why, kind, entry class) -> shapes
    direct = res[('direct', 'ctor')]
    def collect(shape, r, g):
        judged = [e for e in WRITES + LOOKUPS if e in r]
        for (why, kind), es in g.items(): groups.setdefault((why, kind, entries_label(es, judged)), []).append(shape)
    for shape in SHAPES:
        r = dict((e, x) for (s, e), x in res.items() if s == shape)
        g = {}
        def bad(why, kind, e): g.setdefault((why, kind), []).append(e)
        for e in [e for e in WRITES + LOOKUPS if e in r]:
            st, val = r[e]
            sub.count('evaluations'); sub.count('raw_key_evaluations')
            if ver == 'accept':
                if st == 'exc': bad(R.position(d, info), 'refuses an acceptable value', e)
                elif e in WRITES and not same_value(val, info): bad(R.position(d, info), 'stores a different value', e)
            elif ver == 'reject':
                sub.count('raw_key_must_reject_evaluations')
                if st == 'ok': bad(info, 'accepts it', e)
            elif e in WRITES:
                s = R.sound(d, val) if st == 'ok' else None
                if s: bad(s, 'accepts it', e)
                elif st != direct[0] or (st == 'ok' and not (val == direct[1] or same_value(val, direct[1]))):   # ==: the identity map may hand back an equal key
                    bad('undecided', 'differs from the direct assignment of the same value', e)
        collect(shape, r, g)
    if ver == 'accept' and not groups and exact_lookup(d, info):
        found = find_indirect(M, info, v)
        if found is None: sub.count('raw_key_find_fixture_refused')
        else:
            for shape in SHAPES:
                g = {}
                for e in LOOKUPS:
                    sub.count('evaluations'); sub.count('raw_key_lookup_must_find')
                    st, val = found[(shape, e)]
                    if st == 'exc' or ((val != 1) if e == 'get' else (1 not in val)):
                        g.setdefault((R.position(d, info), 'does not find the object stored with this value'), []).append(e)
                        res = dict(res); res[(shape, 'find:' + e)] = found[(shape, e)]
                collect(shape, dict((e, found[(shape, e)]) for e in LOOKUPS), g)
    for (why, kind, el), shapes in sorted(groups.items()):
        route = 'every raw-key route' if len(shapes) == len(SHAPES) else 'raw key via ' + '+'.join(shapes)
        sig = '%s:%s:%s:%s:%s' % (type_label(d, why), why, route, el, kind)
        sub.violation(sig, case, '%s: reference says %s (%s); %s: %s; observed %s' % (text, ver, info if ver != 'accept' else why, route, kind,
                      dict(('%s.%s' % k, x) for k, x in sorted(res.items()) if k[0] in shapes or k[0] == 'direct')))

def indirect_values(d, quick):
    return [v for v in candidates(d, quick) if type(v) is not tuple]      # a tuple is key syntax, not a value

def indirect_base(d, vals):
    for v in vals:
        ver, nv = R.verdict(d, v)
        if ver == 'accept' and nv is not None and type(v) is R.TYPES[d['tkey']]: return v
    return None

def run_indirect(item):
    d = dec(item[0]); quick = item[1]
    sub = core.Sub()
    sub.count('raw_key_declarations')
    try: db, M = build_indirect(d)
    except Exception as e:
        sub.count('raw_key_schema_refused:' + type(e).__name__); return sub.dump()    # what may be a primary key is not this property
    sub.count('raw_key_declarations_mapped')
    vals = indirect_values(d, quick)
    base = indirect_base(d, vals)
    for v in vals:
        res = probe_indirect(M, v, base)
        sub.count('raw_key_cases')
        judge_indirect(sub, M, d, v, res)
    if len(sub.samples) < 1 and d['tkey'] == 'str' and d['args'] == (3,) and not d['kw'] and not d['check']:
        sub.sample(dict(declaration='PrimaryKey' + decl_text(d)[8:], raw_key_routes=list(SHAPES), values=len(vals),
                        entry_points=list(WRITES + LOOKUPS)))
    db.disconnect()
    return sub.dump()

def run_declaration(item):
    if len(item) > 2: return run_indirect(item)
    d = dec(item[0]); quick = item[1]
    sub = core.Sub()
    sub.count('declarations')
    dv, dwhy = R.decl_verdict(d)
    try:
        db, E = build(d)
        mapped = True
    except Exception as e:
        mapped, err = False, type(e).__name__
    sub.count('decl_verdict:' + dv)
    case = dict(decl=enc(d), value=None)
    if dv == 'reject' and mapped:
        sub.violation('decl:%s:%s:accepted at mapping time' % (d['tkey'], dwhy), case, '%s is mapped without complaint (%s)' % (decl_text(d), dwhy))
    if dv == 'accept' and not mapped:
        sub.violation('decl:%s:consistent declaration:refused at mapping time' % d['tkey'], case, '%s raises %s' % (decl_text(d), err))
    if not mapped:
        sub.count('declarations_refused'); return sub.dump()
    sub.count('declarations_mapped')
    vals = candidates(d, quick)
    base = None
    for v in vals:
        ver, nv = R.verdict(d, v)
        if ver == 'accept' and nv is not None and type(v) is R.TYPES[d['tkey']]: base = v; break
    if base is None and d['kind'] == 'Optional' and 'default' not in d['kw']: base = OMIT
    if base is None: sub.count('declarations_without_base_object')
    # the default / omitted attribute
    from pony.orm import db_session, rollback
    with db_session:
        r = attempt(lambda: E(id=1).a)
        rollback()
    sub.count('evaluations')
    if 'default' in d['kw']: ver, info = R.verdict(d, d['kw']['default'])
    elif d['kind'] == 'Required': ver, info = 'reject', 'no value for a Required attribute'
    else: ver, info = 'either', 'omitted Optional attribute'
    if ver == 'accept' and (r[0] != 'ok' or not same_value(r[1], info)):
        sub.violation('%s:default:ctor-omitted:does not store the declared default' % d['tkey'], dict(decl=enc(d), value='<omitted>'),
                      '%s: E() -> %r' % (decl_text(d), r))
    elif ver == 'reject' and r[0] == 'ok':
        sub.violation('%s:%s:writes:accepts it' % (type_label(d, info), info), dict(decl=enc(d), value='<omitted>'),
                      '%s: E() -> %r' % (decl_text(d), r))
    elif ver == 'either' and r[0] == 'ok' and R.sound(d, r[1]):
        sub.violation('%s:%s:writes:accepts it' % (type_label(d, R.sound(d, r[1])), R.sound(d, r[1])),
                      dict(decl=enc(d), value='<omitted>'), '%s: E() -> %r' % (decl_text(d), r))
    for v in vals:
        res = probe(E, v, base)
        sub.count('cases')
        judge(sub, E, d, v, res)
    if len(sub.samples) < 1 and d['tkey'] == 'int' and d['kw'].get('min') == 0:
        sub.sample(dict(declaration=decl_text(d), values=len(vals), entry_points=list(WRITES + LOOKUPS) + ['ctor-omitted']))
    db.disconnect()
    return sub.dump()

def run(ctx):
    decls = declarations(ctx.quick)
    seen, items = set(), []
    for d in decls:
        k = enc(d)
        if k not in seen: seen.add(k); items.append((k, ctx.quick))
    seen = set()
    for d in indirect_declarations(ctx.quick):
        k = enc(d)
        if k not in seen: seen.add(k); items.append((k, ctx.quick, 'raw-key'))
    # quick tier: 15 s of CPU in total; a small pool is as fast as a big one on an idle machine and much
    # faster on a loaded one (16 forked workers were measured 4x slower than 1 under heavy contention)
    for dumped in ctx.pmap(run_declaration, ctx.shuffled(items), chunksize=4, workers=min(ctx.nworkers, 4) if ctx.quick else None):
        core.absorb(ctx, dumped)
    c = ctx.counters
    ctx.guard('declarations mapped', c.get('declarations_mapped', 0), 500)
    ctx.guard('malformed declarations refused', c.get('declarations_refused', 0), 30)
    ctx.guard('values the reference accepts', c.get('verdict:accept', 0), 5000)
    ctx.guard('values the reference rejects', c.get('verdict:reject', 0), 5000)
    ctx.guard('must-reject evaluations', c.get('must_reject_evaluations', 0), 20000)
    ctx.guard('look-ups that had to find a stored object', c.get('lookup_must_find', 0), 3000)
    ctx.guard('undecided values accepted and checked for soundness', c.get('undecided_accepted', 0), 1000)
    ctx.guard('raw-key declarations mapped', c.get('raw_key_declarations_mapped', 0), 20)
    ctx.guard('raw-key must-reject evaluations', c.get('raw_key_must_reject_evaluations', 0), 10000)
    ctx.guard('raw-key look-ups that had to find a stored chain', c.get('raw_key_lookup_must_find', 0), 2000)
    ctx.assume('a raw key value given for a relationship attribute is validated like a direct assignment to the referenced '
               'primary key attribute(s), at any depth; a declaration Pony refuses as a primary key is skipped (counted), a tuple '
               'is key syntax and not tried as a raw value')
    ctx.assume('reference predicate vf/props/_c08_ref.py encodes the documented option semantics (API reference: '
               'size/unsigned ranges, inclusive min/max, max_len, autostrip = str.strip, Required rejects None and \'\', '
               'Optional str rejects None unless nullable); undocumented conversions are undecided, never judged')
    ctx.assume('all entry points run against SQLite; validation code is dialect independent except unsigned 64-bit '
               'and the default varchar length, which are treated as undecided')
    return dict(evaluations=c.get('evaluations', 0), distinct_nontrivial=c.get('cases', 0) + c.get('declarations', 0) + c.get('raw_key_cases', 0),
                rule='(declaration, candidate value) pairs, each pushed through constructor, assignment, set(), '
                     'Entity.get(attr=v) and Entity.select(attr=v) (+ the omitted-attribute constructor and the '
                     'mapping-time verdict per declaration), and as a raw key value through the same entry points of '
                     'four reference shapes; an evaluation is one entry-point outcome compared with the reference verdict')

def replay(ctx, case):
    d = dec(case['decl'])
    if case.get('route') == 'raw-key':
        db, M = build_indirect(d)
        v = dec(case['value']); sub = core.Sub()
        res = probe_indirect(M, v, indirect_base(d, indirect_values(d, False)))
        print(decl_text(d), 'raw key value', case['value'], 'reference', R.verdict(d, v))
        for k, x in sorted(res.items()): print('   %s.%s -> %r' % (k[0], k[1], x))
        judge_indirect(sub, M, d, v, res)
        for sig in sub.found: print('  ', sig)
        return not sub.found
    print(decl_text(d), '| reference for the declaration:', R.decl_verdict(d))
    try: db, E = build(d)
    except Exception as e:
        print('mapping raises', repr(e))
        return R.decl_verdict(d)[0] != 'accept'
    if R.decl_verdict(d)[0] == 'reject': return False
    sub = core.Sub()
    if case['value'] in (None, '<omitted>'):
        from pony.orm import db_session, rollback
        with db_session:
            print('E() ->', attempt(lambda: E(id=1).a)); rollback()
        dumped = run_declaration((case['decl'], True))
        for sig, e in dumped['found'].items():
            if e['case']['value'] == case['value']: print(sig); return False
        return True
    v = dec(case['value'])
    vals = candidates(d, False)
    base = None
    for x in vals:
        ver, nv = R.verdict(d, x)
        if ver == 'accept' and nv is not None and type(x) is R.TYPES[d['tkey']]: base = x; break
    if base is None and d['kind'] == 'Optional' and 'default' not in d['kw']: base = OMIT
    res = probe(E, v, base)
    print('value', case['value'], 'reference', R.verdict(d, v), 'observed', dict((k, x) for k, x in res.items() if k[0] != '_'))
    judge(sub, E, d, v, res)
    for sig in sub.found: print('  ', sig)
    return not sub.found
