"""C30 Raw SQL parameter substitution is faithful.

Bounded-exhaustive: every SQL string that is a sequence of <= 3 (quick) / <= 4 (thorough) fragments
of the alphabet in _c30_lib.FRAGS (raw_sql() fragments: <= 2 / <= 3), x 5 parameter styles, through
every entry point:
  adapt_sql directly; Database.select/get/exists/execute; Entity.select_by_sql/get_by_sql;
  raw_sql() fragments inside queries (6 query forms)
on 6 databases: SQLite (real engine, qmark), SQLite with paramstyle 'named' (real engine),
PostgreSQL (pyformat), MySQL (format), Oracle (named) and a 'numeric' provider (capture databases on
stub drivers, vf.engines.dm). Oracle = reference substituter written from the documentation
(_c30_lib.ref_substitute). What is compared is what reaches the database: the text after the driver
has bound the placeholders + the values in textual order (format/pyformat: DM driver-interpolation
model); on the real SQLite engine additionally the echoed rows.

Expression-grammar part (the extent of a $-expression): every expression wrapper(wrapper(..atom..)) + trailer of
_c30_lib.G_WRAPS (call, call with a bracket character in a string argument before / after the nested argument,
subscript, parenthesised group, tuple-and-subscript, call through an attribute chain) nested to depth 1..2 (thorough:
1..3) over G_ATOMS (name, number, strings holding ')' / ']'), x trailer {none, ';', attribute chain} - so 2-fold / 3-fold
nesting of the same and of different bracket kinds - x embedding {alone, followed by another item (plain
concatenation: by '$$'), inside SQL parentheses, after another parameter} x both scopes, through adapt_sql (5 styles,
select list; plain concatenation for qmark / thorough: all) and, followed by another item, through db.select (real
SQLite), db.execute (PostgreSQL), select_by_sql (SQLite), raw_sql() in genif (SQLite) and where (PostgreSQL); thorough:
all embeddings through select/get/exists/execute on SQLite, PostgreSQL, Oracle, select without the keyword,
select_by_sql/get_by_sql on SQLite, MySQL, all 6 raw_sql() forms on SQLite, genif on PostgreSQL, MySQL, numeric.
Oracle as in the sweep (reference substituter: text + values = eval() of the expression; rows echoed on real SQLite);
the expression is known by construction, and the run is HARNESS-BROKEN unless the reference scanner cuts out exactly
the constructed source text. Failing expressions shrink by dropping a wrapper / the trailer, or replacing a wrapper by
the plain call / subscript.

History part: all ORDERED PAIRS of (entry point, style, statement) items; the result of the second
must equal its cold result. A zygote process forked before anything was adapted provides pristine
processes: one pristine fork per core item (cold reference), two long histories (all items forward /
backward, each in one pristine process) and an isolated re-run (pristine child runs exactly the
minimal pair) of every history signature before it is reported. fork() costs 20 ms here and does
not parallelise, so the ordered pairs themselves run in the workers, separated by restoring the
pristine content of every dict/list/set and *cache* attribute of all pony modules, Database,
provider, entity and attribute objects (snapshot_pristine) - a cache added later is reset without
being named here; a statement that does not reproduce its cold reference after the restore is
itself reported.

Type-history part (the same call site / the same SQL text executed again with other Python types):
items are (entry point, database, SQL text, value of $x, value of $y, result_type); ALL items of an
entry point run through ONE call site (call_typed: the same code object), on an entity with one column
per scalar type. Alphabet: $-values int(2 values) str Decimal date datetime float bool None bytes
entity-instance (thorough: + second str, time, timedelta, UUID); result_type of raw_sql(sql,
result_type) in {none int str Decimal float date bool} (thorough: + datetime bytes); SQL texts:
comparisons of $x with 2 (thorough 8) typed columns, a two-parameter text (thorough, 6x6 / 4x4
types), coalesce($x, column) and bare columns as raw_sql() expressions; entry points quick: raw_sql() in
genif/where/genexpr/order_by queries, Database.select, select_by_sql on real SQLite, a leaner set
(genif, genexpr, Database.select, select_by_sql) on PostgreSQL;
thorough: all 6 raw_sql() query forms, select/get/exists/execute, select_by_sql/get_by_sql on SQLite
and PostgreSQL, a medium set (the quick SQLite set + Database.execute) on SQLite-named, MySQL, Oracle. Enumerated: every ORDERED PAIR of items of the same database
(thorough: + every ordered pair of a cross-database subset; + every ordered TRIPLE of the items of one
call site = same entry point, database and SQL text, on SQLite and PostgreSQL). Oracle: what the last
call sent to the driver (statement text, the values WITH their Python types), its exception class or
its result (values with their types) must equal the same call executed cold; cold references are
validated against pristine forks and two long histories as above. A failing pair is reduced by making
the first call equal to the second component by component; the signature names the components that
must differ (database / entry point / SQL text / $x type|value / $y / result_type) and whether the
statement sent or only the outcome changes. Each process works on its own copy of the SQLite file.
"""
import os, sys, json, itertools, sqlite3, atexit, shutil, uuid
from decimal import Decimal
from datetime import date, datetime, time, timedelta
from vf import core
from vf.engines import dm
from vf.props import _c30_lib as lib

LEVEL = 'exploration'
STYLES = ('qmark', 'format', 'numeric', 'named', 'pyformat')

# ---- the caller's scope: module globals (f, o, and an x that must be shadowed) ------------------------
_G0, _L0 = lib.make_scope(False)
_G1, _L1 = lib.make_scope(True)
x = _G0['x']; f = _G0['f']; o = _G0['o']; g2 = _G0['g2']; t_ = _G0['t_']
SCOPES = {0: (_G0, _L0), 1: (_G1, _L1)}

class NotApplicable(Exception): pass

def call_implicit(what, target, sql):
    """The caller: $-expressions must be evaluated with THIS frame's locals over this module's globals."""
    from pony.orm import select, raw_sql
    x = 7; d = {'k': 'dk'}; quoted = 'Q'
    if what == 'select': return target.select(sql)
    if what == 'get': return target.get(sql)
    if what == 'exists': return target.exists(sql)
    if what == 'execute': return target.execute(sql).fetchall()
    if what == 'select_by_sql': return target.select_by_sql(sql)
    if what == 'get_by_sql': return target.get_by_sql(sql)
    Item = target
    if what == 'genif': return select(e for e in Item if raw_sql(sql))[:]
    if what == 'genexpr': return select(raw_sql(sql) for e in Item)[:]
    if what == 'lamsel': return Item.select(lambda e: raw_sql(sql))[:]
    if what == 'filter': return Item.select().filter(raw_sql(sql))[:]
    if what == 'where': return Item.select().where(raw_sql(sql))[:]
    if what == 'order_by': return Item.select().order_by(raw_sql(sql))[:]
    raise AssertionError(what)

def call_explicit(what, target, sql, G, L):
    """Explicit globals/locals dictionaries must win over the frame."""
    from pony.orm import select, raw_sql
    x = 'frame x (must not be used)'; d = {'k': 'frame d'}; quoted = 'frame quoted'
    if what == 'select': return target.select(sql, G, L)
    if what == 'get': return target.get(sql, G, L)
    if what == 'exists': return target.exists(sql, G, L)
    if what == 'execute': return target.execute(sql, G, L).fetchall()
    if what == 'select_by_sql': return target.select_by_sql(sql, G, L)
    if what == 'get_by_sql': return target.get_by_sql(sql, G, L)
    G2 = dict(G, Item=target, raw_sql=raw_sql); L2 = dict(L, sql=sql)
    if what == 'genif': return select('e for e in Item if raw_sql(sql)', G2, L2)[:]
    if what == 'genexpr': return select('raw_sql(sql) for e in Item', G2, L2)[:]
    if what == 'lamsel': raise NotApplicable()   # Entity.select(<lambda source>, globals, locals) is not an accepted form
    if what == 'filter': return target.select().filter('lambda: raw_sql(sql)', G2, L2)[:]
    if what == 'where': return target.select().where('lambda: raw_sql(sql)', G2, L2)[:]
    if what == 'order_by': return target.select().order_by('lambda: raw_sql(sql)', G2, L2)[:]
    raise AssertionError(what)

# ---- environment: databases ---------------------------------------------------------------------------
DRIVER_LOG = []
class RecCursor(sqlite3.Cursor):
    def execute(self, sql, args=None):
        DRIVER_LOG.append((sql, args))
        if args is None: return sqlite3.Cursor.execute(self, sql)
        return sqlite3.Cursor.execute(self, sql, args)
class RecConnection(sqlite3.Connection):
    def cursor(self, factory=None):
        return sqlite3.Connection.cursor(self, RecCursor)

ROWS = [7, 8, 70, 71, 'oyz', 'OYZ', '7|a)b', 'a)b/70', 'dk', 'DK', 'a', '$', '%', '%%', '%s', 'Q', 'QQ', '?', '']
TYPED_ROWS = [(1, 6, '6', '7.25', '2020-01-01', '2020-01-02 03:04:04', 7.25, 0, b'6'),
              (2, 7, '7', '7.5', '2020-01-02', '2020-01-02 03:04:05', 7.5, 1, b'7'),
              (3, 8, '8', '7.75', '2020-01-03', '2020-01-02 03:04:06', 7.75, 1, b'8'),
              (4, None, None, None, None, None, None, None, None)]
DBNAMES = ('sqlite', 'sqlite-named', 'pg', 'mysql', 'oracle', 'numeric')
REAL = ('sqlite', 'sqlite-named')

class DbEnv(object):
    def __init__(self, name, scratch):
        from pony import orm
        self.name = name
        self.real = name in REAL
        if self.real:
            self.path = os.path.join(scratch, name + '.sqlite')
            db = orm.Database()
        else:
            db = dm.capture_database({'pg': 'postgres', 'mysql': 'mysql', 'oracle': 'oracle', 'numeric': 'postgres'}[name])
        class C30Item(db.Entity):
            _table_ = 'c30item'
            id = orm.PrimaryKey(int)
            s = orm.Optional(str)
        class C30Typed(db.Entity):       # one column per scalar type: the type-history part runs on it
            _table_ = 'c30typed'
            id = orm.PrimaryKey(int)
            i = orm.Optional(int); s = orm.Optional(str, nullable=True); dec = orm.Optional(Decimal, 12, 2)
            dt = orm.Optional(date); ts = orm.Optional(datetime); fl = orm.Optional(float)
            b = orm.Optional(bool); by = orm.Optional(bytes)
        if self.real:
            db.bind('sqlite', self.path, create_db=True, factory=RecConnection)
            db.generate_mapping(create_tables=True)
            db.disconnect()
            con = sqlite3.connect(self.path)
            con.executemany('insert into c30item (id, s) values (?, ?)', [(i + 1, v) for i, v in enumerate(ROWS)])
            con.executemany('insert into c30typed (id, i, s, dec, dt, ts, fl, b, by) values (?, ?, ?, ?, ?, ?, ?, ?, ?)', TYPED_ROWS)
            con.commit(); con.close()
        else:
            db.generate_mapping()
        if name == 'sqlite-named': db.provider.paramstyle = 'named'
        if name == 'numeric': db.provider.paramstyle = 'numeric'
        self.db, self.Item, self.Typed = db, C30Item, C30Typed
        self.style = db.provider.paramstyle
        self._plain = None
        self._pid = os.getpid()
        self.path0 = getattr(self, 'path', None)
    def mark(self):
        if self.real and self._pid != os.getpid(): self.localize()
        return len(DRIVER_LOG) if self.real else len(self.db.log)
    def localize(self):
        """every process works on its own copy of the (read-only) SQLite file: Database.execute opens
        a write transaction, and on a loaded machine 16 workers on one file ran into 'database is
        locked' (seen as a non-reproducible 'refused')."""
        self._pid = os.getpid()
        path = os.path.join(os.path.dirname(self.path0), '%s-%d.sqlite' % (self.name, self._pid))
        shutil.copyfile(self.path0, path)
        try: self.db.disconnect()
        except Exception: pass
        self.db.provider.pool.filename = self.path = path
    def sent_since(self, mark):
        log = DRIVER_LOG[mark:] if self.real else self.db.log[mark:]
        return [(s, a) for (s, a) in log if not s.upper().startswith(('BEGIN', 'COMMIT', 'ROLLBACK', 'PRAGMA'))]
    def plain(self):
        """plain sqlite3 connection on the same file: executes the reference's statement."""
        if self._plain is None or self._plain[0] != os.getpid():
            self._plain = (os.getpid(), sqlite3.connect(self.path))
        return self._plain[1]

ENV = {}
SCRATCH = None
def setup_env():
    global SCRATCH
    if ENV: return
    SCRATCH = '/dev/shm/vf-%d' % os.getpid()
    os.makedirs(SCRATCH, exist_ok=True)
    owner = os.getpid()
    def cleanup():
        if os.getpid() == owner: shutil.rmtree(SCRATCH, ignore_errors=True)
    atexit.register(cleanup)
    for n in DBNAMES: ENV[n] = DbEnv(n, SCRATCH)
    snapshot_pristine()

_PRISTINE = []      # (kind, holder, key, object, snapshot)
def snapshot_pristine():
    """Remember the content of EVERY container (dict/list/set) and every `*cache*` scalar that is an
    attribute of a pony module, a Database, its provider, an entity class or an attribute object.
    reset_known_caches() restores them, so a cache added to pony later is covered without being
    named here (function-local/closure state is not: pristine forks remain the reference)."""
    import pony
    del _PRISTINE[:]
    holders = [m for n, m in sorted(sys.modules.items()) if n == 'pony' or n.startswith('pony.')]
    for env in ENV.values():
        holders += [env.db, env.db.provider, env.Item, env.Typed] + list(env.Item._attrs_) + list(env.Typed._attrs_)
    seen = set()
    for h in holders:
        try: d = vars(h)
        except TypeError: continue
        for k, v in list(d.items()):
            if k.startswith('__') and k.endswith('__'): continue
            if isinstance(v, (dict, list, set)):
                if id(v) in seen: continue
                seen.add(id(v))
                _PRISTINE.append(('c', h, k, v, v.copy()))
            elif 'cache' in k.lower() and not callable(v) and not isinstance(v, type(sys)):
                _PRISTINE.append(('s', h, k, v, None))

def reset_known_caches():
    """Emulates a cold process between enumerated cases (see snapshot_pristine)."""
    for kind, h, k, v, snap in _PRISTINE:
        if kind == 'c':
            if len(v) != len(snap):
                if isinstance(v, dict): v.clear(); v.update(snap)
                elif isinstance(v, list): v[:] = snap
                else: v.clear(); v.update(snap)
        else:
            cur = vars(h).get(k, v)
            if cur is not v:
                try: setattr(h, k, v)
                except (AttributeError, TypeError): type.__setattr__(h, k, v)

# ---- channels -----------------------------------------------------------------------------------------
DB_METHODS = ('select', 'get', 'exists', 'execute')
E_METHODS = ('select_by_sql', 'get_by_sql')
RAWQ_FORMS = ('genif', 'genexpr', 'lamsel', 'filter', 'where', 'order_by')
def all_channels():
    out = [('adapt:' + st, lay) for st in STYLES for lay in ('raw', 'list')]
    for d in DBNAMES:
        for m in DB_METHODS:
            out.append(('db.%s:%s' % (m, d), 'list'))
            if m != 'execute': out.append(('db.%s:%s' % (m, d), 'nolead'))
        for m in E_METHODS: out.append(('E.%s:%s' % (m, d), 'where'))
        for m in RAWQ_FORMS: out.append(('rawq.%s:%s' % (m, d), 'frag'))
    return out

def style_of(ch):
    kind, _, dbn = ch.partition(':')
    return dbn if kind == 'adapt' else ENV[dbn].style

def _canon_result(r):
    if isinstance(r, list) or type(r).__name__ == 'QueryResult': return [_canon_result(i) for i in r]
    if hasattr(r, '_pkval_'): return ['<obj>', r.id, r.s]
    if isinstance(r, tuple): return [lib.canon(i) for i in r]
    return lib.canon(r)

def observe(ch, text, mode):
    """Run one statement through one entry point; return what reached the driver and the result."""
    from pony.orm import db_session
    from pony.orm.core import adapt_sql
    kind, _, dbn = ch.partition(':')
    G, L = SCOPES[mode]
    if kind == 'adapt':
        try:
            sql, code = adapt_sql(text, dbn)
            args = eval(code, dict(G), dict(L))
        except Exception as e:
            return dict(style=dbn, exc=type(e).__name__)
        return dict(style=dbn, sql=sql, args=args)
    env = ENV[dbn]
    group, meth = kind.split('.')
    target = env.db if group == 'db' else env.Item
    mark = env.mark()
    out = dict(style=env.style)
    try:
        with db_session:
            if mode == 0: r = call_implicit(meth, target, text)
            else: r = call_explicit(meth, target, text, dict(G), dict(L))
            out['result'] = _canon_result(r)
    except NotApplicable:
        return dict(style=env.style, na=True)
    except Exception as e:
        out['exc'] = type(e).__name__
    sent = env.sent_since(mark)
    if sent:
        out['sql'], out['args'] = sent[-1]
        out['nsent'] = len(sent)
    if env.real: del DRIVER_LOG[:]
    else: del env.db.log[:]
    return out

def same_values(a, b):
    return json.dumps(lib.canon(list(a)), sort_keys=True) == json.dumps(lib.canon(list(b)), sort_keys=True)

def _ref_rows(env, sql, values):
    try: return ('rows', env.plain().execute(sql, values).fetchall())
    except sqlite3.Error as e: return ('error', type(e).__name__)
    except (OverflowError, ValueError) as e: return ('error', type(e).__name__)

def judge(ch, names, layout, mode):
    """-> (verdict, detail). verdict: 'ok', 'notjudged:*', 'refused-both', or a violation kind
    'refused' | 'evaluated' | 'unfaithful' | 'echo'."""
    text = lib.text_of(names, layout)
    G, L = SCOPES[mode]
    reftext = ('select ' + text) if layout == 'nolead' else text
    ref = lib.ref_substitute(reftext, dict(G), dict(L))
    obs = observe(ch, text, mode)
    detail = dict(text=text, observed=lib.canon(obs), reference=lib.canon(ref))
    if obs.get('na'): return 'notjudged:form-not-applicable', detail
    if ref[0] in ('malformed', 'ambiguous'): return 'notjudged:' + ref[0], detail
    if ref[0] == 'evalerror':
        if 'sql' in obs: return 'evaluated', detail
        return 'refused-both', detail
    _, rtext, rvalues = ref
    if 'sql' not in obs: return 'refused', detail
    style = obs['style']
    try: ftext, fvalues = lib.drive(obs['sql'], obs['args'], style)
    except lib.DriverReject as e:
        detail['driver'] = str(e)
        return 'unfaithful', detail
    detail['final'] = [ftext, lib.canon(list(fvalues))]
    kind = ch.partition(':')[0]
    if kind.startswith('rawq'):
        pos = ftext.find(rtext)
        if pos < 0: return 'unfaithful', detail
        k = ftext[:pos].count(lib.MARK)
        if not same_values(fvalues[k:k + len(rvalues)], rvalues): return 'unfaithful', detail
        if ftext.count(lib.MARK) != len(fvalues): return 'unfaithful', detail
    else:
        if ftext != rtext or not same_values(fvalues, rvalues): return 'unfaithful', detail
        if obs.get('nsent', 1) != 1: return 'unfaithful', detail
    # ---- echo on the real engine
    dbn = ch.partition(':')[2]
    if kind != 'adapt' and dbn in REAL:
        if dbn == 'sqlite-named' and "'$quoted'" in names: return 'ok', detail   # a dict may hold unused keys
        env = ENV[dbn]
        meth = kind.split('.')[1]
        if kind.startswith('rawq'):
            if meth == 'genexpr': exp = _ref_rows(env, 'select %s from c30item e' % rtext, rvalues)
            elif meth == 'order_by': exp = _ref_rows(env, 'select id, s from c30item e order by %s' % rtext, rvalues)
            else: exp = _ref_rows(env, 'select id, s from c30item e where %s' % rtext, rvalues)
        else: exp = _ref_rows(env, rtext, rvalues)
        detail['expected_rows'] = lib.canon(exp)
        if exp[0] == 'error':
            return ('ok' if 'exc' in obs else 'echo'), detail
        rows = exp[1]
        got = obs.get('result')
        def key(v): return json.dumps(v, sort_keys=True)
        if kind.startswith('db'):
            flat = [lib.canon(r[0]) for r in rows] if rows and len(rows[0]) == 1 else [lib.canon(list(r)) for r in rows]
            if meth in ('select', 'execute'):
                if meth == 'execute': flat = [lib.canon(list(r)) for r in rows]
                good = 'exc' not in obs and got == flat
            elif meth == 'get':
                good = ('exc' in obs) if len(rows) != 1 else ('exc' not in obs and got == flat[0])
            else: good = 'exc' not in obs and got == bool(rows)
        elif kind.startswith('E'):
            want = sorted((['<obj>', r[0], r[1]] for r in rows), key=key)
            if meth == 'get_by_sql':
                if len(rows) > 1: good = 'exc' in obs
                elif not rows: good = 'exc' not in obs and got is None
                else: good = 'exc' not in obs and got == want[0]
            else: good = 'exc' not in obs and sorted(got, key=key) == want
        else:
            if meth == 'genexpr':
                good = 'exc' not in obs and set(map(key, got)) == set(key(lib.canon(r[0])) for r in rows)
            else:
                want = sorted((['<obj>', r[0], r[1]] for r in rows), key=key)
                good = 'exc' not in obs and sorted(got, key=key) == want
        if not good: return 'echo', detail
        return 'ok+echo', detail
    return 'ok', detail

VIOLATION_KINDS = ('refused', 'evaluated', 'unfaithful', 'echo')

# ---- minimal failing shape ------------------------------------------------------------------------
_memo = {}
def verdict_of(ch, names, layout, mode):
    k = (ch, tuple(names), layout, mode)
    if k not in _memo:
        reset_known_caches()
        _memo[k] = judge(ch, list(names), layout, mode)[0]
    return _memo[k]
def fails(ch, names, layout, mode):
    v = verdict_of(ch, names, layout, mode)
    return v if v in VIOLATION_KINDS else None

def shrink(ch, names, layout, mode, kind):
    names = list(names)
    changed = True
    while changed:
        changed = False
        for i in range(len(names)):
            if len(names) == 1: break
            cand = names[:i] + names[i + 1:]
            if fails(ch, cand, layout, mode) == kind:
                names, changed = cand, True; break
        if changed: continue
        for i, n in enumerate(names):
            for alt in lib.SIMPLER.get(n, ()):
                cand = names[:i] + [alt] + names[i + 1:]
                if fails(ch, cand, layout, mode) == kind:
                    names, changed = cand, True; break
            if changed: break
    return names

_sigmemo = {}
def signature(ch, names, layout, mode, kind):
    """Minimal failing shape: shrunk fragment skeleton + the class of entry points / parameter
    styles on which that skeleton fails in the same way."""
    mn = tuple(shrink(ch, names, layout, mode, kind))
    group = ch.partition(':')[0].split('.')[0]
    mk = (group, ch if group != 'rawq' else None, mn, layout, kind, mode)
    if mk in _sigmemo: return _sigmemo[mk], list(mn)
    style = style_of(ch)
    skel = ' '.join(mn)
    if group in ('adapt', 'db', 'E'):
        # does adapt_sql itself show it (same style)?  then the entry point is not to blame
        def afails(st): return fails('adapt:' + st, mn, 'list', mode) == kind or fails('adapt:' + st, mn, 'raw', mode) == kind
        if afails(style):
            sig = 'adapt_sql[%s]|%s|%s' % ('+'.join(st for st in STYLES if afails(st)), kind, skel)
        else:
            meth = ch.partition(':')[0]
            dbs = [d for d in DBNAMES if fails('%s:%s' % (meth, d), mn, layout, mode) == kind]
            sig = '%s[%s]|%s|%s|layout=%s' % (meth, '+'.join(dbs), kind, skel, layout)
    else:
        bad = [(fm, d) for fm in RAWQ_FORMS for d in DBNAMES if fails('rawq.%s:%s' % (fm, d), mn, layout, mode) == kind]
        forms = sorted(set(b[0] for b in bad)); styles = sorted(set(ENV[b[1]].style for b in bad))
        applicable = [fm for fm in RAWQ_FORMS if not verdict_of('rawq.%s:sqlite' % fm, mn, layout, mode).startswith('notjudged:form')]
        sig = 'raw_sql()[forms=%s styles=%s]|%s|%s' % ('all' if len(forms) == len(applicable) else '+'.join(forms),
                                                       '+'.join(styles), kind, skel)
    other = verdict_of(ch, mn, layout, 1 - mode)
    if other != kind and not other.startswith('notjudged'):
        sig += '|scope=%s-only' % ('explicit' if mode else 'frame')
    _sigmemo[mk] = sig
    return sig, list(mn)

# ---- sweep worker -------------------------------------------------------------------------------------
SEQS = {}
def sequences(maxlen, layout):
    """All fragment sequences up to maxlen, deduplicated by the statement text they produce."""
    k = (maxlen, layout)
    if k not in SEQS:
        seen, out = set(), []
        for n in range(1, maxlen + 1):
            for t in itertools.product(lib.NAMES, repeat=n):
                text = lib.text_of(t, layout)
                if text not in seen: seen.add(text); out.append(t)
        SEQS[k] = out
    return SEQS[k]

def sweep_worker(job):
    ch, layout, maxlen, part, nparts = job
    sub = core.Sub()
    distinct = 0
    grp = ch.partition(':')[0].split('.')[0]
    for idx, names in enumerate(sequences(maxlen, layout)):
        if idx % nparts != part: continue
        text = lib.text_of(names, layout)
        nontrivial = any(c in text for c in '$%')
        for mode in (0, 1):
            reset_known_caches()
            verdict, detail = judge(ch, list(names), layout, mode)
            sub.count('evaluations')
            sub.count('verdict:' + ('notjudged' if verdict.startswith('notjudged') else verdict))
            if verdict.startswith('notjudged'): sub.count(verdict); continue
            sub.count('judged:' + grp)
            if nontrivial: distinct += 1
            if verdict == 'ok+echo': sub.count('echo_compared')
            if verdict in VIOLATION_KINDS:
                sig, mn = signature(ch, names, layout, mode, verdict)
                case = dict(part='sweep', channel=ch, names=list(names), layout=layout, mode=mode,
                            minimal=mn, kind=verdict, detail=detail)
                sub.violation(sig, case, '%s via %s (%s scope): %r -> %s; minimal skeleton: %s'
                              % (verdict, ch, 'explicit' if mode else 'frame', detail['text'],
                                 json.dumps(detail.get('final', detail['observed']), default=repr)[:200], ' '.join(mn)))
            elif len(sub.samples) < 1 and len(names) >= 2 and verdict == 'ok+echo' and idx % 7 == 3:
                sub.sample(dict(channel=ch, sql=detail['text'], driver=detail['final'], rows=detail.get('expected_rows')))
    sub.counters['distinct_nontrivial'] = distinct
    return sub.dump()

# ---- history part -------------------------------------------------------------------------------------
CORE5 = ('%', '%%', '%s', '$x', '$$')
def hist_items(quick):
    """(channel, names, layout) items. Statement pool: all single fragments, plus all two-fragment
    statements over the escape-relevant core {% %% %s $x $$} (quick) / that core plus {a, $x;, '$quoted'}
    (thorough)."""
    one = [(n,) for n in lib.NAMES]
    two_all = list(itertools.product(CORE5 + ('a', '$x;', "'$quoted'"), repeat=2))
    two_core = list(itertools.product(CORE5, repeat=2))
    big = one + (two_core if quick else two_all)
    small = one + two_core
    items = []
    for st in STYLES:
        for nm in big: items.append(('adapt:' + st, nm, 'list'))
        for nm in (one if quick else small): items.append(('adapt:' + st, nm, 'raw'))
    for d in ('sqlite', 'pg', 'mysql'):
        for nm in small: items.append(('db.select:' + d, nm, 'list'))
    for d in ('pg',) if quick else ('sqlite', 'pg', 'mysql'):
        for nm in (one if quick else small): items.append(('E.select_by_sql:' + d, nm, 'where'))
    for d in ('sqlite', 'pg'):
        for nm in (one if quick else small): items.append(('rawq.genif:' + d, nm, 'frag'))
    seen, out = set(), []
    for ch, nm, lay in items:
        k = (ch, lib.text_of(nm, lay))
        if k not in seen: seen.add(k); out.append((ch, tuple(nm), lay))
    return out

def core_items(items, quick):
    """Items whose cold reference is taken from a pristine forked process, one fork each."""
    keep = []
    for i, (ch, nm, lay) in enumerate(items):
        if len(nm) == 1 and (not quick or nm[0] in CORE5 or ch.startswith(('rawq', 'E.'))) and lay != 'raw': keep.append(i)
        elif not quick and len(nm) == 2 and nm[0] in ('%', '%%') and nm[1] in ('$x', '%') and lay != 'raw': keep.append(i)
    return keep

def run_item(item):
    ch, nm, lay = item
    if lay == 'typed': return json.dumps(observe_typed(ch, tuple(nm)), sort_keys=True)
    return json.dumps(lib.canon(observe(ch, lib.text_of(nm, lay), 0)), sort_keys=True)

class Zygote(object):
    """A process forked before anything was adapted. For each request it forks a pristine child
    that runs the given items in order and returns their results."""
    def __init__(self):
        self.req_r, self.req_w = os.pipe()
        self.res_r, self.res_w = os.pipe()
        self.pid = os.fork()
        if self.pid == 0:
            try:
                os.close(self.req_w); os.close(self.res_r)
                inp = os.fdopen(self.req_r, 'r')
                for line in inp:
                    items = json.loads(line)
                    pid = os.fork()
                    if pid == 0:
                        try:
                            res = [run_item((ch, tuple(nm), lay)) for ch, nm, lay in items]
                            data = (json.dumps(res) + '\n').encode()
                        except BaseException as e:
                            data = (json.dumps({'error': repr(e)}) + '\n').encode()
                        try:
                            while data: data = data[os.write(self.res_w, data):]
                        finally: os._exit(0)
                    os.waitpid(pid, 0)
            finally: os._exit(0)
        os.close(self.req_r); os.close(self.res_w)
        self.out = os.fdopen(self.req_w, 'w')
        self.inp = os.fdopen(self.res_r, 'r')
        self.forks = 0
    def run(self, items):
        self.out.write(json.dumps([[ch, list(nm), lay] for ch, nm, lay in items]) + '\n'); self.out.flush()
        self.forks += 1
        res = json.loads(self.inp.readline())
        if isinstance(res, dict): raise core.HarnessError('pristine child failed: %s' % res['error'])
        return res
    def close(self):
        try: self.out.close(); self.inp.close(); os.waitpid(self.pid, 0)
        except Exception: pass

ITEMS = []
COLD = []
def pair_fails(i1, i2):
    """in-process equivalent of 'a pristine process runs i1 then i2' (pristine content of every
    container restored first); the isolated fork confirms reported shapes."""
    reset_known_caches()
    cold2 = run_item(i2)
    reset_known_caches()
    run_item(i1)
    return run_item(i2) != cold2

def shrink_pair(i1, i2):
    (c1, n1, l1), (c2, n2, l2) = i1, i2
    n1, n2 = list(n1), list(n2)
    # entry point -> adapt_sql of the same style, when that still shows it
    a1 = 'adapt:' + style_of(c1); a2 = 'adapt:' + style_of(c2)
    if (c1, c2) != (a1, a2) and not c1.startswith('rawq') and not c2.startswith('rawq') \
            and pair_fails((a1, tuple(n1), 'list'), (a2, tuple(n2), 'list')):
        c1, c2, l1, l2 = a1, a2, 'list', 'list'
    def bad(a, b): return pair_fails((c1, tuple(a), l1), (c2, tuple(b), l2))
    changed = True
    while changed:
        changed = False
        cands = []
        for i in range(len(n1)):
            if len(n1) > 1: cands.append((n1[:i] + n1[i + 1:], n2))
        for j in range(len(n2)):
            if len(n2) > 1: cands.append((n1, n2[:j] + n2[j + 1:]))
        for i in range(len(n1)):
            for j in range(len(n2)):
                if len(n1) > 1 and len(n2) > 1: cands.append((n1[:i] + n1[i + 1:], n2[:j] + n2[j + 1:]))
        for k, alts in sorted(lib.SIMPLER.items()):
            if k in n1 or k in n2:
                for v in alts: cands.append(([v if n == k else n for n in n1], [v if n == k else n for n in n2]))
        for a, b in cands:
            if bad(a, b):
                n1, n2, changed = a, b, True; break
    return (c1, tuple(n1), l1), (c2, tuple(n2), l2)

_pairsig = {}
def pair_signature(i1, i2):
    m1, m2 = shrink_pair(i1, i2)
    if (m1, m2) in _pairsig: return _pairsig[(m1, m2)], m1, m2
    (c1, n1, l1), (c2, n2, l2) = m1, m2
    if c1.startswith('adapt:') and c2.startswith('adapt:'):
        if c1 == c2:
            sts = [s for s in STYLES if pair_fails(('adapt:' + s, n1, l1), ('adapt:' + s, n2, l2))]
            where = 'adapt_sql[same style: %s]' % '+'.join(sts)
        else:
            prs = [(a, b) for a in STYLES for b in STYLES if a != b and pair_fails(('adapt:' + a, n1, l1), ('adapt:' + b, n2, l2))]
            if len(prs) == len(STYLES) * (len(STYLES) - 1): where = 'adapt_sql[any two different styles]'
            else: where = 'adapt_sql[%s]' % ', '.join('%s then %s' % pr for pr in prs)
    else:
        where = '%s then %s' % (c1, c2)
    sig = 'history|%s|first=%s second=%s' % (where, json.dumps(lib.text_of(n1, 'raw')), json.dumps(lib.text_of(n2, 'raw')))
    _pairsig[(m1, m2)] = sig
    return sig, m1, m2

def pair_worker(job):
    firsts = job
    sub = core.Sub()
    n = len(ITEMS)
    for a in firsts:
        i1 = ITEMS[a]
        for b in range(n):
            i2 = ITEMS[b]
            reset_known_caches()
            r1 = run_item(i1)
            r2 = run_item(i2)
            sub.count('pairs')
            if a != b: sub.count('pairs_distinct_items')
            if r1 != COLD[a]:
                sub.violation('history|statement run after restoring pristine container contents differs from its cold reference|%s' % i1[0],
                              dict(part='pair', first=None, second=list(i1), got=r1, cold=COLD[a]),
                              'state outside the restored containers influences %s %r' % (i1[0], lib.text_of(i1[1], i1[2])))
            if r2 != COLD[b]:
                sub.count('pair_mismatches')
                sig, m1, m2 = pair_signature(i1, i2)
                sub.violation(sig, dict(part='pair', first=list(i1), second=list(i2), minimal_first=list(m1),
                                        minimal_second=list(m2), got=r2, cold=COLD[b]),
                              'after %s %r, %s %r gives %s but a cold process gives %s'
                              % (i1[0], lib.text_of(i1[1], i1[2]), i2[0], lib.text_of(i2[1], i2[2]), r2[:160], COLD[b][:160]))
    return sub.dump()

# ---- $-expression grammar part -------------------------------------------------------------------------
def grammar_plan(quick):
    """-> [(channel, layout, maxdepth, embeddings)]; embeddings: 'all' = {alone, followed by another item, inside SQL
    parentheses, after another parameter}, 'one' = followed by another item"""
    plan = [('adapt:' + st, 'list', 2 if quick else 3, 'all') for st in STYLES]
    plan += [('adapt:' + st, 'raw', 2 if quick else 3, 'all') for st in (('qmark',) if quick else STYLES)]
    if quick:
        dbs = [('db.select:sqlite', 'list'), ('db.execute:pg', 'list'), ('E.select_by_sql:sqlite', 'where'),
               ('rawq.genif:sqlite', 'frag'), ('rawq.where:pg', 'frag')]
        return plan + [(ch, lay, 2, 'one') for ch, lay in dbs]
    dbs = [('db.%s:%s' % (m, d), 'list') for m in DB_METHODS for d in ('sqlite', 'pg', 'oracle')]
    dbs += [('db.select:%s' % d, 'nolead') for d in ('sqlite', 'mysql')]
    dbs += [('E.%s:%s' % (m, d), 'where') for m in E_METHODS for d in ('sqlite', 'mysql')]
    dbs += [('rawq.%s:sqlite' % fm, 'frag') for fm in RAWQ_FORMS] + [('rawq.genif:%s' % d, 'frag') for d in ('pg', 'mysql', 'numeric')]
    return plan + [(ch, lay, 2, 'all') for ch, lay in dbs]

def grammar_embeddings(name, which, layout):
    if which == 'one': return [(name, 'a')]
    # plain concatenation: a letter would continue an attribute chain, so a literal dollar follows instead
    return [(name,), (name, '$$' if layout == 'raw' else 'a'), ('(' + name + ')',), ('$x', name)]

def grammar_worker(job):
    ch, layout, maxdepth, which, part, nparts = job
    sub = core.Sub()
    distinct = 0
    grp = ch.partition(':')[0].split('.')[0]
    for idx, name in enumerate(lib.grammar_names(maxdepth)):
        if idx % nparts != part: continue
        meta = lib.GRAMMAR[name]
        for names in grammar_embeddings(name, which, layout):
            text = lib.text_of(names, layout)
            # the expression is known by construction: the reference scanner must cut out exactly it
            reftext = ('select ' + text) if layout == 'nolead' else text
            try: exprs = [s for k, s in lib.ref_parse(reftext) if k == 'e']
            except Exception as e: exprs = [type(e).__name__]
            if meta['src'] not in exprs: sub.count('grammar_reference_scanner_disagrees_with_construction')
            for mode in (0, 1):
                reset_known_caches()
                verdict, detail = judge(ch, list(names), layout, mode)
                sub.count('evaluations'); sub.count('grammar_evaluations')
                sub.count('verdict:' + ('notjudged' if verdict.startswith('notjudged') else verdict))
                if verdict.startswith('notjudged'): sub.count('grammar_' + verdict); continue
                sub.count('judged:' + grp); sub.count('grammar_judged:' + grp)
                distinct += 1
                if verdict == 'ok+echo': sub.count('echo_compared')
                if verdict in ('ok', 'ok+echo'):
                    sub.count('grammar_bound_faithfully:same_kind_nesting=%d' % meta['same'])
                    if meta['trailer']: sub.count('grammar_bound_faithfully:trailer=%s' % meta['trailer'])
                if verdict in VIOLATION_KINDS:
                    sig, mn = signature(ch, names, layout, mode, verdict)
                    case = dict(part='sweep', grammar=True, channel=ch, names=list(names), layout=layout, mode=mode,
                                minimal=mn, kind=verdict, detail=detail)
                    sub.violation(sig, case, '%s via %s (%s scope): %r -> %s; minimal skeleton: %s'
                                  % (verdict, ch, 'explicit' if mode else 'frame', detail['text'],
                                     json.dumps(detail.get('final', detail['observed']), default=repr)[:200], ' '.join(mn)))
                elif len(sub.samples) < 1 and meta['same'] >= 2 and verdict == 'ok+echo' and idx % 11 == 5:
                    sub.sample(dict(channel=ch, sql=detail['text'], driver=detail['final'], rows=detail.get('expected_rows')))
    sub.counters['distinct_nontrivial'] = distinct
    return sub.dump()

_WORKERS = dict(grammar='grammar_worker', sweep='sweep_worker', pairs='pair_worker', tpairs='typed_pair_worker', ttriples='typed_triple_worker')
def any_worker(job):
    import time as _time
    t0 = _time.process_time()
    d = globals()[_WORKERS[job[0]]](job[1])
    sub = core.Sub(); sub.count('worker_cpu_ms:' + job[0], int((_time.process_time() - t0) * 1000))
    return [d, sub.dump()]

def cold_worker(idxs):
    out = []
    for i in idxs:
        reset_known_caches()
        out.append((i, run_item(ITEMS[i])))
    return out

# ---- type-history part: the same call site / the same SQL text with $-values of different Python types -------
TVALS = dict([('int', 7), ('int8', 8), ('str', '7'), ('Decimal', Decimal('7.5')), ('date', date(2020, 1, 2)),
              ('datetime', datetime(2020, 1, 2, 3, 4, 5)), ('float', 7.5), ('bool', True), ('None', None),
              ('bytes', b'7'), ('entity', None),                                   # entity: Typed[2], made per call
              ('str8', '8'), ('time', time(3, 4, 5)), ('timedelta', timedelta(hours=7)),
              ('UUID', uuid.UUID('12345678123456781234567812345678'))])
TV_QUICK = ('int', 'int8', 'str', 'Decimal', 'date', 'datetime', 'float', 'bool', 'None', 'bytes', 'entity')
TV_ALL = TV_QUICK + ('str8', 'time', 'timedelta', 'UUID')
TV_TWO = ('int', 'str', 'Decimal', 'date', 'float', 'None')
RTS = dict([('-', None), ('int', int), ('str', str), ('Decimal', Decimal), ('float', float), ('date', date),
            ('bool', bool), ('datetime', datetime), ('bytes', bytes)])
RT_QUICK = ('-', 'int', 'str', 'Decimal', 'float', 'date', 'bool')
RT_ALL = RT_QUICK + ('datetime', 'bytes')
T_COND = ('e.i <= $x', '$x >= e.dt', 'e.s = $x', 'e.dec < $x', 'e.ts > $x', 'e.fl <> $x', 'e.b = $x', 'e.by = $x')
T_TWO = '$x <= e.fl and e.dec <= $y'
T_EXPR = ('coalesce($x, e.s)', 'coalesce(e.i, $x)')
T_COL = ('e.s', 'e.i', 'e.dec', 'e.dt')
T_DBS_QUICK = ('sqlite', 'pg')
T_DBS_ALL = ('sqlite', 'sqlite-named', 'pg', 'mysql', 'oracle')
T_PREFIX = {'db': 'select id from c30typed e where ', 'E': 'select * from c30typed e where '}

def call_typed(what, target, sql, x, y, rt):
    """ONE call site per entry point: every type-history item of an entry point runs the same code
    object; only the SQL text, the values of $x/$y in this frame and the result type vary."""
    from pony.orm import select, raw_sql
    if what == 'select': return target.select(sql)
    if what == 'get': return target.get(sql)
    if what == 'exists': return target.exists(sql)
    if what == 'execute': return target.execute(sql).fetchall()
    if what == 'select_by_sql': return target.select_by_sql(sql)
    if what == 'get_by_sql': return target.get_by_sql(sql)
    Item = target
    if what == 'genif': return select(e for e in Item if raw_sql(sql, rt))[:]
    if what == 'genexpr': return select(raw_sql(sql, rt) for e in Item)[:]
    if what == 'lamsel': return Item.select(lambda e: raw_sql(sql, rt))[:]
    if what == 'filter': return select(e for e in Item).filter(raw_sql(sql, rt))[:]
    if what == 'where': return select(e for e in Item).where(raw_sql(sql, rt))[:]
    if what == 'order_by': return select(e for e in Item).order_by(raw_sql(sql, rt))[:]
    raise AssertionError(what)

def tcanon(v):
    """like lib.canon, but every scalar carries its Python type (7, 7.0, '7' and Decimal('7') differ)."""
    if isinstance(v, (list, tuple)) or type(v).__name__ == 'QueryResult': return [tcanon(i) for i in v]
    if isinstance(v, dict): return {str(k): tcanon(i) for k, i in sorted(v.items(), key=lambda kv: str(kv[0]))}
    if hasattr(v, '_pkval_'): return '<%s %r>' % (type(v).__name__, v._pkval_)
    if v is None: return None
    return '%s:%r' % (type(v).__name__, v)

def observe_typed(ch, nm):
    """ch = 'T.<group>.<method>:<db>', nm = (fragment, x value name, y value name, result type name)."""
    from pony.orm import db_session
    frag, vx, vy, rt = nm
    kind, _, dbn = ch[2:].partition(':')
    env = ENV[dbn]
    group, meth = kind.split('.')
    target = env.db if group == 'db' else env.Typed
    text = T_PREFIX.get(group, '') + frag
    mark = env.mark()
    out = dict(style=env.style)
    try:
        with db_session:
            vals = [env.Typed._get_by_raw_pkval_((2,)) if v == 'entity' else TVALS[v] for v in (vx, vy)]
            out['result'] = tcanon(call_typed(meth, target, text, vals[0], vals[1], RTS[rt]))
    except Exception as e:
        out['exc'] = type(e).__name__
    sent = env.sent_since(mark)
    if sent:
        out['sql'], out['args'] = sent[-1][0], tcanon(sent[-1][1])
        out['nsent'] = len(sent)
    if env.real: del DRIVER_LOG[:]
    else: del env.db.log[:]
    return out

def item_text(nm, lay):
    if lay == 'typed': return '%s {x: %s, y: %s, result_type: %s}' % tuple(nm)
    return lib.text_of(nm, lay)

def typed_items(quick):
    """(channel, (fragment, x, y, result type), 'typed') items; see the module docstring for the bounds."""
    V = TV_QUICK if quick else TV_ALL
    R = RT_QUICK if quick else RT_ALL
    out = []
    def add(kind, d, frags, xs, ys=('None',), rts=('-',)):
        for fr in frags:
            for vx in xs:
                for vy in (ys if '$y' in fr else ('None',)):
                    for rt in rts: out.append(('T.%s:%s' % (kind, d), (fr, vx, vy, rt), 'typed'))
    for d in (T_DBS_QUICK if quick else T_DBS_ALL):
        if quick and d == 'sqlite' or not quick and d not in T_DBS_QUICK:
            # medium set: quick on the real engine; thorough on SQLite-named, MySQL, Oracle
            add('rawq.genif', d, T_COND[:2], V)
            add('rawq.where', d, T_COND[:1], V)
            add('rawq.genexpr', d, T_EXPR[:1], V)
            add('rawq.genexpr', d, T_COL[:2], ('None',), rts=R)
            add('rawq.genexpr', d, T_EXPR[:1], ('int', 'str'), rts=R[1:])
            add('rawq.order_by', d, T_EXPR[1:], V)
            add('db.select', d, T_COND[:1], V)
            add('E.select_by_sql', d, T_COND[:1], V)
            if not quick: add('db.execute', d, T_COND[:1], V)
        elif quick:
            # lean set: quick on PostgreSQL
            add('rawq.genif', d, T_COND[:1], V)
            add('rawq.genexpr', d, T_EXPR[:1], V)
            add('rawq.genexpr', d, T_COL[:2], ('None',), rts=R)
            add('rawq.genexpr', d, T_EXPR[:1], ('int', 'str'), rts=R[1:])
            add('db.select', d, T_COND[:1], V)
            add('E.select_by_sql', d, T_COND[:1], V)
        else:
            # full set: thorough on the real engine and PostgreSQL
            add('rawq.genif', d, T_COND[:5], V)
            add('rawq.genif', d, T_COND[5:], TV_QUICK)
            add('rawq.genif', d, (T_TWO,), TV_TWO, TV_TWO)
            for fm in ('where', 'lamsel', 'filter'): add('rawq.' + fm, d, T_COND[:1], V)
            add('rawq.genexpr', d, T_EXPR, V)
            add('rawq.genexpr', d, T_COL, ('None',), rts=R)
            add('rawq.genexpr', d, T_EXPR[:1], ('int', 'str'), rts=R[1:])
            add('rawq.order_by', d, T_EXPR[1:], V)
            add('db.select', d, T_COND[:2], V)
            add('E.select_by_sql', d, T_COND[:2], V)
            for m in ('get', 'exists', 'execute'): add('db.' + m, d, T_COND[:1], V)
            add('E.get_by_sql', d, T_COND[:1], V)
            add('db.select', d, (T_TWO,), TV_TWO[:4], TV_TWO[:4])
    return out

def t_db(item): return item[0].partition(':')[2]
def t_site(item): return (item[0], item[1][0])

def typed_core(items, quick):
    """items whose cold reference is taken from a pristine fork: per (entry point, database) the first
    fragment with every value / every result type on the real SQLite database (thorough: and PostgreSQL),
    genif only on the other databases."""
    first = {}
    for it in items: first.setdefault(it[0], it[1][0])
    keep = []
    for i, it in enumerate(items):
        if it[1][0] not in (first[it[0]], T_COL[0]): continue
        if not it[0].startswith('T.rawq.genif') and t_db(it) != 'sqlite' and (quick or t_db(it) != 'pg'): continue
        keep.append(i)
    return keep

T_COMPONENTS = ('database', 'entry point', 'SQL text', '$x', '$y', 'result_type')
def _t_parts(it):
    kind, _, dbn = it[0].partition(':')
    return [dbn, kind] + list(it[1])
def _t_item(parts):
    return ('%s:%s' % (parts[1], parts[0]), tuple(parts[2:]), 'typed')

def _val_diff(a, b):
    ta = type(TVALS[a]).__name__ if a != 'entity' else 'entity'
    tb = type(TVALS[b]).__name__ if b != 'entity' else 'entity'
    return 'type' if ta != tb else 'value'

def shrink_typed(i1, i2):
    """Make the first call equal to the second, component by component, as long as the second still
    differs from its cold result: what remains different is the minimal failing shape."""
    p1, p2 = _t_parts(i1), _t_parts(i2)
    for k in range(len(p1)):
        if p1[k] == p2[k] or sum(u != v for u, v in zip(p1, p2)) == 1: continue
        cand = list(p1); cand[k] = p2[k]
        if pair_fails(_t_item(cand), i2): p1 = cand
    # a value of another type -> another value of the same type, when that still shows it
    for k in (3, 4):
        if p1[k] != p2[k] and _val_diff(p1[k], p2[k]) == 'type':
            for alt in sorted(TVALS):
                if alt != p2[k] and _val_diff(alt, p2[k]) == 'value':
                    cand = list(p1); cand[k] = alt
                    if pair_fails(_t_item(cand), i2): p1 = cand; break
    return _t_item(p1), i2

_GROUPNAME = {'rawq': 'raw_sql() in a query', 'db': 'Database.select/get/exists/execute', 'E': 'select_by_sql/get_by_sql'}
def _differs(warm, cold):
    w, c = json.loads(warm), json.loads(cold)
    if any(w.get(k) != c.get(k) for k in ('sql', 'args', 'nsent')): return 'statement sent'
    return 'outcome'

_tsig = {}
def typed_signature(i1, i2):
    m1, m2 = shrink_typed(i1, i2)
    if (m1, m2) in _tsig: return _tsig[(m1, m2)], m1, m2
    p1, p2 = _t_parts(m1), _t_parts(m2)
    diff = []
    for k, name in enumerate(T_COMPONENTS):
        if p1[k] != p2[k]:
            diff.append(name + (' ' + _val_diff(p1[k], p2[k]) if k in (3, 4) else ''))
    g2 = _GROUPNAME[p2[1].split('.')[1]]
    if p1[1] != p2[1]: g2 = '%s after %s' % (g2, _GROUPNAME[p1[1].split('.')[1]])
    reset_known_caches(); cold = run_item(m2)
    reset_known_caches(); run_item(m1); warm = run_item(m2)
    sig = 'type-history|%s|earlier call differs in: %s|changes: %s' % (g2, ', '.join(diff) or 'nothing (same call repeated)', _differs(warm, cold))
    _tsig[(m1, m2)] = sig
    return sig, m1, m2

TITEMS = []
TCOLD = []
TCROSS = frozenset()
def typed_partners(a):
    """second items paired with first item a: every item of the same database; across databases the
    items of the cross-database subset."""
    da = t_db(TITEMS[a])
    return [b for b in range(len(TITEMS)) if t_db(TITEMS[b]) == da or (a in TCROSS and b in TCROSS)]

def _typed_violation(sub, hist, got, cold):
    i1, i2 = hist[-2], hist[-1]
    sig, m1, m2 = typed_signature(i1, i2)
    sub.violation(sig, dict(part='pair', history=[list(h) for h in hist], first=list(i1), second=list(i2),
                            minimal_first=list(m1), minimal_second=list(m2), got=got, cold=cold),
                  'after %s, %s %s gives %s but a cold process gives %s'
                  % ('; '.join('%s %s' % (h[0], item_text(h[1], h[2])) for h in hist[:-1]), i2[0], item_text(i2[1], i2[2]), got[:200], cold[:200]))

def typed_pair_worker(firsts):
    sub = core.Sub()
    for a in firsts:
        i1 = TITEMS[a]
        for b in typed_partners(a):
            i2 = TITEMS[b]
            reset_known_caches()
            r1 = run_item(i1)
            r2 = run_item(i2)
            sub.count('type_pairs')
            if a != b: sub.count('type_pairs_distinct_items')
            if i1[1][0] == i2[1][0] and i1[1] != i2[1]: sub.count('type_pairs_same_sql_text_other_types')
            if r1 != TCOLD[a]:
                sub.violation('history|statement run after restoring pristine container contents differs from its cold reference|%s' % i1[0],
                              dict(part='pair', first=None, second=list(i1), got=r1, cold=TCOLD[a]),
                              'state outside the restored containers influences %s %s' % (i1[0], item_text(i1[1], i1[2])))
            if r2 != TCOLD[b]:
                sub.count('type_pair_mismatches')
                _typed_violation(sub, [i1, i2], r2, TCOLD[b])
    return sub.dump()

def typed_triple_worker(job):
    """all ordered triples of the items of one call site (same entry point, database and SQL text)."""
    idxs, part, nparts = job
    sub = core.Sub()
    for n, (a, b) in enumerate(itertools.product(idxs, repeat=2)):
        if n % nparts != part: continue
        for c in idxs:
            reset_known_caches()
            run_item(TITEMS[a])
            rb = run_item(TITEMS[b])
            rc = run_item(TITEMS[c])
            sub.count('type_triples')
            if rc != TCOLD[c]:
                sub.count('type_triple_mismatches')
                if pair_fails(TITEMS[b], TITEMS[c]) or pair_fails(TITEMS[a], TITEMS[c]):
                    sub.count('type_triple_mismatches_explained_by_a_pair')      # reported by the pairs part
                else:
                    sub.violation('type-history|only after two earlier calls|%s' % TITEMS[c][0].partition(':')[0],
                                  dict(part='long', sequence=[list(TITEMS[k]) for k in (a, b, c)], got=rc, cold=TCOLD[c]),
                                  'after %s and %s, %s gives %s, cold %s' % (item_text(*TITEMS[a][1:]), item_text(*TITEMS[b][1:]),
                                                                             item_text(*TITEMS[c][1:]), rc[:160], TCOLD[c][:160]))
    return sub.dump()

def cold_and_long_histories(ctx, zyg, items, cold, corei, sigfunc):
    """cold references (taken in-process after restoring pristine contents) are validated against
    pristine forked processes: one fork per core item, and two long histories (all items forward /
    backward), each in one pristine process."""
    n = len(items)
    for i in ctx.shuffled(corei):
        r = zyg.run([items[i]])[0]
        ctx.count('cold_reference_forks')
        if r != cold[i]:
            ctx.violation('history|pristine forked process disagrees with the in-process cold reference|%s' % items[i][0],
                          dict(part='pair', first=None, second=list(items[i]), got=cold[i], cold=r),
                          'pristine fork: %s, after restoring pristine containers: %s' % (r[:200], cold[i][:200]))
    order = ctx.shuffled(range(n)) if ctx.seed else list(range(n))
    for name, seq in (('forward', order), ('backward', order[::-1])):
        res = zyg.run([items[i] for i in seq])
        ctx.count('long_histories')
        for pos, i in enumerate(seq):
            ctx.count('long_history_steps')
            if res[pos] != cold[i]:
                # attribute to an ordered pair if one reproduces it (same call site first), else report the long history
                culprit = None
                site = (items[i][0], items[i][1][0])
                for j in sorted(seq[:pos], key=lambda j: (items[j][0], items[j][1][0]) != site):
                    if pair_fails(items[j], items[i]): culprit = j; break
                if culprit is not None:
                    sig, m1, m2 = sigfunc(items[culprit], items[i])
                    ctx.violation(sig, dict(part='pair', first=list(items[culprit]), second=list(items[i]),
                                            minimal_first=list(m1), minimal_second=list(m2), got=res[pos], cold=cold[i]),
                                  'long history in a pristine process: %s gives %s, cold %s' % (items[i][0], res[pos][:160], cold[i][:160]))
                else:
                    ctx.violation('history|only after a long history|%s %s' % (items[i][0], json.dumps(item_text(items[i][1], 'raw' if items[i][2] != 'typed' else 'typed'))),
                                  dict(part='long', sequence=[list(items[k]) for k in seq[:pos + 1]], got=res[pos], cold=cold[i]),
                                  'after %d earlier statements in a pristine process %s gives %s, cold %s' % (pos, items[i][0], res[pos][:160], cold[i][:160]))

# ---- run ----------------------------------------------------------------------------------------------
def run(ctx):
    global ITEMS, COLD, TITEMS, TCOLD, TCROSS
    import pony.orm
    setup_env()
    zyg = Zygote()                     # pristine: nothing has been adapted in this process yet
    try:
        ITEMS = hist_items(ctx.quick)
        n = len(ITEMS)
        COLD = [None] * n
        for i, r in cold_worker(range(n)): COLD[i] = r
        cold_and_long_histories(ctx, zyg, ITEMS, COLD, core_items(ITEMS, ctx.quick), pair_signature)
        # ---- the same for the type-history items
        TITEMS = typed_items(ctx.quick)
        tn = len(TITEMS)
        TCOLD = [None] * tn
        for i in range(tn):
            reset_known_caches()
            TCOLD[i] = run_item(TITEMS[i])
        cold_and_long_histories(ctx, zyg, TITEMS, TCOLD, typed_core(TITEMS, ctx.quick), typed_signature)
        if not ctx.quick:
            TCROSS = frozenset(i for i, it in enumerate(TITEMS) if it[1][0] in (T_COND[0], T_COL[0]) and it[1][2] == 'None'
                               and it[0].startswith(('T.rawq.genif', 'T.rawq.genexpr', 'T.db.select')))
        # ---- sweep
        amax, emax, rmax = (3, 3, 2) if ctx.quick else (4, 4, 3)
        jobs = []
        for ch, layout in all_channels():
            grp = ch.partition(':')[0].split('.')[0]
            ml = amax if grp == 'adapt' else rmax if grp == 'rawq' else emax
            nseq = len(sequences(ml, layout))
            nparts = max(1, min(32, nseq * (12 if grp == 'rawq' else 1) // 1500))
            for p in range(nparts): jobs.append((ch, layout, ml, p, nparts))
        # ---- all ordered pairs (same pool of workers)
        firsts = ctx.shuffled(range(n))
        gjobs = []
        for ch, layout, md, which in grammar_plan(ctx.quick):
            work = len(lib.grammar_names(md)) * (1 if which == 'one' else 4) * (1 if ch.startswith('adapt') else 8)
            nparts = max(1, min(32, work // 3000))
            gjobs += [('grammar', (ch, layout, md, which, p, nparts)) for p in range(nparts)]
        jobs = [('sweep', j) for j in jobs] + gjobs + [('pairs', c) for c in (firsts[i::64] for i in range(64)) if c]
        # ---- type histories: ordered pairs; thorough: all ordered triples within one call site
        tfirsts = ctx.shuffled(range(tn))
        jobs += [('tpairs', c) for c in (tfirsts[i::192] for i in range(192)) if c]
        if not ctx.quick:
            sites = {}
            for i, it in enumerate(TITEMS): sites.setdefault(t_site(it), []).append(i)
            for st, idxs in sorted(sites.items()):
                if len(idxs) <= 32 and st[1] in (T_COND[0], T_EXPR[0], T_COL[0], T_EXPR[1]) and st[0].partition(':')[2] in T_DBS_QUICK:
                    jobs += [('ttriples', (idxs, p, 8)) for p in range(8)]
        before_sweep = set(ctx.found)
        for d2 in ctx.pmap(any_worker, ctx.shuffled(jobs)):
            for d in d2: core.absorb(ctx, d)
        distinct = ctx.counters.pop('distinct_nontrivial', 0)
        sweep_sigs = set(sig for sig in set(ctx.found) - before_sweep if ctx.found[sig]['case'].get('part') == 'sweep')
        # ---- confirm every history signature in isolation (a pristine child runs exactly the minimal pair)
        for sig in sorted(set(ctx.found) - sweep_sigs):
            case = ctx.found[sig]['case']
            if case.get('part') != 'pair' or case.get('first') is None: continue
            m1 = (case['minimal_first'][0], tuple(case['minimal_first'][1]), case['minimal_first'][2])
            m2 = (case['minimal_second'][0], tuple(case['minimal_second'][1]), case['minimal_second'][2])
            warm = zyg.run([m1, m2])[1]
            cold = zyg.run([m2])[0]
            ctx.count('isolated_confirmations')
            case['isolated'] = dict(warm=warm, cold=cold)
            if warm == cold:
                ctx.found[sig + '|not reproduced by the isolated minimal pair'] = ctx.found.pop(sig)
        # ---- observe the minimal case of every sweep signature from a pristine process
        for sig in sorted(sweep_sigs & set(ctx.found)):
            case = ctx.found[sig]['case']
            if case['mode'] != 0: continue
            res = json.loads(zyg.run([(case['channel'], tuple(case['minimal']), case['layout'])])[0])
            case['pristine_observation_of_minimal'] = res
            ctx.count('isolated_confirmations')
    finally:
        zyg.close()
    ctx.count('zygote_forks', zyg.forks)
    c = ctx.counters
    ctx.guard('adapt_sql evaluations judged', c.get('judged:adapt', 0), 5000)
    ctx.guard('Database.select/get/exists/execute evaluations judged', c.get('judged:db', 0), 2000)
    ctx.guard('select_by_sql/get_by_sql evaluations judged', c.get('judged:E', 0), 1000)
    ctx.guard('raw_sql() fragment evaluations judged', c.get('judged:rawq', 0), 2000)
    ctx.guard('cases where the substitution was compared and agreed', c.get('verdict:ok', 0) + c.get('verdict:ok+echo', 0), 5000)
    ctx.guard('rows echoed by the real SQLite engine compared', c.get('echo_compared', 0), 500)
    if c.get('grammar_reference_scanner_disagrees_with_construction', 0):
        raise core.HarnessError('the reference scanner does not cut out the constructed $-expression in %d statements'
                                % c['grammar_reference_scanner_disagrees_with_construction'])
    ctx.guard('grammar part: $-expressions bound faithfully with 2-fold nesting of one bracket kind',
              c.get('grammar_bound_faithfully:same_kind_nesting=2', 0), 5000)
    if not ctx.quick: ctx.guard('grammar part: ... with 3-fold nesting of one bracket kind',
                                c.get('grammar_bound_faithfully:same_kind_nesting=3', 0), 5000)
    ctx.guard('grammar part: judged through Database methods / select_by_sql / raw_sql()',
              min(c.get('grammar_judged:' + k, 0) for k in ('db', 'E', 'rawq')), 500)
    ctx.guard('ordered pairs run', c.get('pairs', 0), 10000)
    ctx.guard('cold references taken from pristine forks', c.get('cold_reference_forks', 0), 20)
    ctx.guard('type-history ordered pairs run', c.get('type_pairs', 0), 10000)
    ctx.guard('type-history pairs with the same SQL text and other $-value types / result type', c.get('type_pairs_same_sql_text_other_types', 0), 2000)
    if not ctx.quick: ctx.guard('type-history ordered triples run', c.get('type_triples', 0), 10000)
    ctx.assume('reference substituter _c30_lib.ref_substitute encodes the documentation of $-parameters; strings whose extent the documentation leaves open (whitespace before a trailer) and malformed strings are counted, not judged')
    ctx.assume('format/pyformat drivers %-interpolate whenever an argument object is passed (DM driver model, vf.engines.dm.bind_placeholders); numeric/named/qmark binding is modelled quote-unaware except on the real SQLite engine')
    ctx.assume('fork costs 20 ms here and does not parallelise, so only the core items, two long histories over all items and every reported signature use pristine forked processes; the other cold references and the separation of the ordered pairs restore the pristine content of every dict/list/set and *cache* attribute of all pony modules, Database, provider, entity and attribute objects (a cache added later is covered unless it lives in a closure)')
    ctx.assume('type-history part: the entity instance used as a $-value is obtained with Entity._get_by_raw_pkval_((2,)) inside the db_session (no query), so that it exists on the capture databases too')
    ctx.cov['history_items'] = n
    ctx.cov['type_history_items'] = tn
    ctx.cov['type_history'] = dict(values=list(TV_QUICK if ctx.quick else TV_ALL), result_types=list(RT_QUICK if ctx.quick else RT_ALL),
                                   databases=list(T_DBS_QUICK if ctx.quick else T_DBS_ALL),
                                   entry_points=sorted(set(it[0].partition(':')[0][2:] for it in TITEMS)),
                                   fragments=sorted(set(it[1][0] for it in TITEMS)))
    ctx.cov['fragment_alphabet'] = lib.NAMES
    ctx.cov['expression_grammar'] = dict(atoms=list(lib.G_ATOMS), wrappers=list(lib.G_WRAPS), trailers=list(lib.G_TRAILERS),
                                         expressions=len(lib.grammar_names(3)), plan=[list(p) for p in grammar_plan(ctx.quick)])
    ctx.cov['max_fragments'] = dict(adapt_sql=amax, select_get_exists_execute_by_sql=emax, raw_sql_in_queries=rmax)
    return dict(evaluations=c.get('evaluations', 0) + c.get('pairs', 0) + c.get('long_history_steps', 0) + c.get('type_pairs', 0) + c.get('type_triples', 0),
                distinct_nontrivial=distinct + c.get('pairs_distinct_items', 0) + c.get('type_pairs_distinct_items', 0) + c.get('type_triples', 0),
                rule='sweep: every fragment sequence up to the bound (deduplicated by statement text) x entry point x database/paramstyle x {frame scope, explicit dicts}; '
                     'non-trivial = contains $ or % and was judged against the reference. '
                     'history: every ordered pair of (entry point, style, statement) items; non-trivial = the two items differ. '
                     'type history: every ordered pair (same database; thorough: + cross-database subset, + every ordered triple within a call site) of '
                     '(entry point, database, SQL text, $x value, $y value, result_type) items run at ONE call site per entry point')

def _it(x): return (x[0], tuple(x[1]), x[2])
def replay(ctx, case):
    setup_env()
    if case.get('part') == 'sweep':
        for names in (case['names'], case['minimal']):
            v, detail = judge(case['channel'], list(names), case['layout'], case['mode'])
            print('%s %s scope=%s -> %s' % (case['channel'], detail['text'], case['mode'], v))
            print('   observed :', json.dumps(detail['observed'], default=repr)[:400])
            print('   reference:', json.dumps(detail['reference'], default=repr)[:400])
            if v in VIOLATION_KINDS: return False
        return True
    zyg = Zygote()
    try:
        ok = True
        if case.get('part') == 'long':
            seq = [_it(x) for x in case['sequence']]
            warm = zyg.run(seq)[-1]; cold = zyg.run([seq[-1]])[0]
            print('long history of %d statements; last: %s' % (len(seq), seq[-1],)); print('   warm:', warm[:300]); print('   cold:', cold[:300])
            return warm == cold
        for a, b in ((case.get('first'), case['second']), (case.get('minimal_first'), case.get('minimal_second'))):
            if b is None: continue
            hist = ([_it(a)] if a else []) + [_it(b)]
            warm = zyg.run(hist)[-1]; cold = zyg.run([_it(b)])[0]
            print('history', [(h[0], item_text(h[1], h[2])) for h in hist]); print('   warm:', warm[:300]); print('   cold:', cold[:300])
            if a is None: cold = case['cold'] if case['got'] == warm else cold
            if warm != cold: ok = False
        return ok
    finally: zyg.close()
