"""C25 String indexing and slicing translate to Python semantics on every dialect.

Exhaustive product: string lengths 0..5 x start/stop/index in {omitted, None, -7..7} x
{constant, parameter, column} forms, x 4 dialect code paths. SQLite is executed for real through
Pony; PostgreSQL / MySQL / Oracle SQL text comes from the real translator+builder (capture
database) and is executed on the SQLite substrate with that dialect's documented substr/length/
greatest semantics (vf.engines.dm).
"""
import itertools, sqlite3
from vf import core
from vf.engines import dm

LEVEL = 'exploration'
STRINGS = ['', 'a', 'ab', 'abc', 'abcd', 'abcde']
R = list(range(-7, 8))
RN = [None] + R

def define(db):
    from pony.orm import Optional, PrimaryKey
    class S0(db.Entity):
        id = PrimaryKey(int)
        s = Optional(str)
    class S1(db.Entity):
        id = PrimaryKey(int)
        s = Optional(str)
        i = Optional(int)
    class S2(db.Entity):
        id = PrimaryKey(int)
        s = Optional(str)
        i = Optional(int)
        j = Optional(int)

def rows():
    r0 = [(k + 1, s) for k, s in enumerate(STRINGS)]
    r1 = [(k + 1, s, i) for k, (s, i) in enumerate(itertools.product(STRINGS, RN))]
    r2 = [(k + 1, s, i, j) for k, (s, i, j) in enumerate(itertools.product(STRINGS, RN, RN))]
    return r0, r1, r2

def fill(con):
    r0, r1, r2 = rows()
    con.executemany('insert into s0 (id, s) values (?, ?)', r0)
    con.executemany('insert into s1 (id, s, i) values (?, ?, ?)', r1)
    con.executemany('insert into s2 (id, s, i, j) values (?, ?, ?, ?)', r2)

def forms(ctx):
    """yield (kind, entity, source, locals, pyfunc(row)->expected) ; kind describes the form."""
    out = []
    # --- index
    for c in R:
        out.append((('index', 'const', c), 'S0', 'x.s[%d]' % c, {}, (lambda row, c=c: ix(row[1], c))))
        out.append((('index', 'param', c), 'S0', 'x.s[a]', {'a': c}, (lambda row, c=c: ix(row[1], c))))
    out.append((('index', 'column', None), 'S1', 'x.s[x.i]', {}, (lambda row: ix(row[1], row[2]))))
    # --- slices
    def bound(form, v, name, col):
        # returns (text, locals, needs_column, getter)
        if form == 'omitted': return '', {}, False, (lambda row: None)
        if form == 'const': return repr(v), {}, False, (lambda row, v=v: v)
        if form == 'param': return name, {name: v}, False, (lambda row, v=v: v)
        if form == 'column': return 'x.' + col, {}, True, None
    specs = [('omitted', None)] + [('const', v) for v in R] + [('param', v) for v in RN] + [('column', None)]
    for (sf, sv), (ef, ev) in itertools.product(specs, specs):
        ncols = (sf == 'column') + (ef == 'column')
        ent = 'S%d' % ncols
        stext, sloc, scol, sget = bound(sf, sv, 'a', 'i')
        etext, eloc, ecol, eget = bound(ef, ev, 'b', 'i' if ncols == 1 else 'j')
        if scol: sget = lambda row: row[2]
        if ecol: eget = (lambda row: row[2]) if ncols == 1 else (lambda row: row[3])
        loc = dict(sloc); loc.update(eloc)
        src = 'x.s[%s:%s]' % (stext, etext)
        out.append((('slice', sf, sv, ef, ev), ent, src, loc,
                    (lambda row, sget=sget, eget=eget: row[1][sget(row):eget(row)])))
    return out

class OutOfRange(object): pass
OOR = OutOfRange()
def ix(s, i):
    if i is None: return OOR
    try: return s[i]
    except IndexError: return OOR

def region(s, a, b):
    def cls(v, n):
        if v is None: return 'none'
        if v < -n: return '<-len'
        if v == -n: return '-len' if n else '0'
        if v < 0: return 'neg'
        if v == 0: return '0'
        if v < n: return 'pos'
        if v == n: return 'len'
        return '>len'
    return '%s,%s' % (cls(a, len(s)), cls(b, len(s)))

def same(dialect, got, exp):
    if exp is OOR: return got in ('', None)
    if dialect == 'oracle' and exp == '': return got in ('', None)
    return got == exp

def run(ctx):
    from pony import orm
    from pony.orm import db_session, select
    r0, r1, r2 = rows()
    table = dict(S0=r0, S1=r1, S2=r2)
    all_forms = forms(ctx)
    all_forms = ctx.shuffled(all_forms)
    evaluations = 0
    distinct = set()
    undecided = {}
    for dialect in dm.DIALECTS:
        if dialect == 'sqlite':
            db = orm.Database()
            define(db)
            db.bind('sqlite', ':memory:')
            db.generate_mapping(create_tables=True)
            with db_session:
                con = db.get_connection()
                fill(con)
            sub = None
        else:
            db = dm.capture_database(dialect)
            define(db)
            db.generate_mapping()
            sub = dm.Substrate(dialect)
            for t, cols in (('s0', 'id integer primary key, s text'),
                            ('s1', 'id integer primary key, s text, i integer'),
                            ('s2', 'id integer primary key, s text, i integer, j integer')):
                sub.con.execute('create table %s (%s)' % (t, cols))
            fill(sub.con)
        paramstyle = db.provider.paramstyle
        for kind, ent, src, loc, pyf in all_forms:
            qsrc = '(x.id, %s) for x in %s' % (src, ent)
            glob = {ent: db.entities[ent]}
            try:
                with db_session:
                    q = select(qsrc, glob, dict(loc))
                    if sub is None:
                        got = dict(q[:])
                    else:
                        del db.log[:]
                        q[:]
                        sql, args = db.log[-1]
                        got = dict(sub.execute(sql, args, paramstyle))
            except dm.Undecided as e:
                undecided[str(e)[:60]] = undecided.get(str(e)[:60], 0) + 1
                ctx.count('undecided_queries')
                continue
            except dm.DialectError as e:
                ctx.violation('%s:%s:dialect-error' % (dialect, kind[0]),
                              dict(dialect=dialect, query=qsrc, locals=loc, error=str(e)),
                              'dialect model: server would reject the generated SQL: %s' % e)
                ctx.count('queries'); continue
            except Exception as e:
                # Pony may refuse a form (translation error): allowed, counted
                ctx.count('refused:%s' % type(e).__name__)
                continue
            ctx.count('queries')
            ctx.count('queries:' + dialect)
            if len(ctx.samples) < 6 and kind[0] == 'slice' and sub is not None and kind[1] == 'column':
                ctx.sample(dict(dialect=dialect, query=qsrc, locals=loc, sql=sql, args=args))
            for row in table[ent]:
                exp = pyf(row)
                g = got.get(row[0], '<missing row>')
                evaluations += 1
                if kind[0] == 'slice':
                    a = {'omitted': None}.get(kind[1], kind[2]) if kind[1] != 'column' else row[2]
                    b = {'omitted': None}.get(kind[3], kind[4]) if kind[3] != 'column' else (row[2] if ent == 'S1' else row[3])
                    reg = region(row[1], a, b)
                    if b == -1 and a in (None, 0) and kind[3] != 'column' and kind[1] != 'column':
                        reg = 'start in {omitted,0} and stop=-1 (sentinel)'
                else:
                    a = kind[2] if kind[1] != 'column' else row[2]; b = None
                    reg = region(row[1], a, None)
                if (kind[1] == 'column' and a is None) or (kind[0] == 'slice' and kind[3] == 'column' and b is None):
                    # a NULL *column* bound is outside the property's quantifier (positive, negative,
                    # zero, out of range, or omitted): SQL NULL propagation is defensible. Not judged.
                    ctx.count('null_column_bound_not_judged'); continue
                distinct.add((dialect, kind[0], kind[1], kind[3] if kind[0] == 'slice' else '', len(row[1]), a, b))
                if not same(dialect, g, exp):
                    sig = '%s:%s:%s' % (dialect, kind[0], reg)
                    ctx.violation(sig, dict(dialect=dialect, query=qsrc, locals=loc, s=row[1], start=a, stop=b,
                                            got=g, expected=None if exp is OOR else exp),
                                  '%s: %s with s=%r start/index=%r stop=%r -> %r, Python gives %r'
                                  % (dialect, src, row[1], a, b, g, None if exp is OOR else exp))
    ctx.guard('queries executed', ctx.counters.get('queries', 0), 1000)
    for d in dm.DIALECTS:
        ctx.guard('queries on ' + d, ctx.counters.get('queries:' + d, 0), 300)
    ctx.cov['undecided'] = undecided
    ctx.assume('PostgreSQL/MySQL/Oracle substr(), length(), greatest() follow the vendor manuals as encoded in vf/engines/dm.py (model-based); SQLite is the real engine')
    ctx.assume('piecewise-linear formulas with breakpoints at 0 and +-len: bounds exceeding the maximal length 5 by 2 on both sides visit every region (small-scope argument replacing "symbolically")')
    return dict(evaluations=evaluations, distinct_nontrivial=len(distinct),
                rule='(dialect, form, len(s), start/index, stop) tuples; every tuple is a distinct SQL evaluation compared with Python s[a:b] / s[i]')

def formsig(kind):
    if kind[0] == 'index': return 'index[%s]' % kind[1]
    return 'slice[%s..%s]' % (kind[1], kind[3])

def replay(ctx, case):
    from pony import orm
    from pony.orm import db_session, select
    dialect = case['dialect']
    if dialect == 'sqlite':
        db = orm.Database(); define(db); db.bind('sqlite', ':memory:'); db.generate_mapping(create_tables=True)
        with db_session: fill(db.get_connection())
    else:
        db = dm.capture_database(dialect); define(db); db.generate_mapping()
        sub = dm.Substrate(dialect)
        for t, cols in (('s0', 'id integer primary key, s text'), ('s1', 'id integer primary key, s text, i integer'),
                        ('s2', 'id integer primary key, s text, i integer, j integer')):
            sub.con.execute('create table %s (%s)' % (t, cols))
        fill(sub.con)
    ent = case['query'].rsplit(' ', 1)[1]
    with db_session:
        q = select(case['query'], {ent: db.entities[ent]}, dict(case['locals']))
        if dialect == 'sqlite': got = dict(q[:])
        else:
            q[:]; sql, args = db.log[-1]
            print('SQL:', sql, args)
            got = dict(sub.execute(sql, args, db.provider.paramstyle))
    r0, r1, r2 = rows()
    for row in dict(S0=r0, S1=r1, S2=r2)[ent]:
        if row[1] == case['s'] and (len(row) < 3 or row[2] == case['start'] or row[2] == case['stop']) \
                and (len(row) < 4 or (row[2] == case['start'] and row[3] == case['stop'])):
            print('row', row, '->', repr(got.get(row[0])), 'expected', repr(case['expected']))
            return same(dialect, got.get(row[0]), case['expected'] if case['expected'] is not None else OOR)
    return True
