"""C08 reference: what a declaration means, written from Pony's API reference only
(https://docs.ponyorm.org/api_reference.html#attribute-options; nothing here is derived from the code).

    Required / Optional   Required rejects None and the empty string; Optional accepts None, except that an
                          Optional *string* attribute stores '' instead and rejects None unless nullable=True
    size, unsigned        int only: size in (8, 16, 24, 32, 64) bits, two's complement or unsigned range
    min, max              numeric attributes: ValueError below min / above max (bounds inclusive)
    max_len               str: maximal length (also as first positional argument)
    autostrip             str: leading and trailing whitespace removed like str.strip(); default True
    py_check              callable on the value; falsy result or ValueError rejects
    precision, scale      Decimal: scale <= precision, both positive ints

The verdict is three-valued so that the check never demands more than the documentation fixes:

    ('accept', nv)   the value has the declared Python type and satisfies every declared constraint;
                     every entry point must accept it and store exactly nv
    ('reject', why)  the value has the declared type (or a type with no documented conversion) and
                     violates the named constraint; every entry point must raise
    ('either', why)  documented behaviour does not decide (str->int, bool->int, float->Decimal, NaN,
                     default int width, py_check before or after normalisation ...): accepting and
                     rejecting are both fine, but an accepted value must still be *sound*: the stored
                     value has the declared type and satisfies every constraint.
"""
import math
from datetime import date, time, datetime, timedelta
from decimal import Decimal
from uuid import UUID

TYPES = dict(bool=bool, int=int, float=float, Decimal=Decimal, str=str, LongStr=str, bytes=bytes, date=date,
             time=time, datetime=datetime, timedelta=timedelta, UUID=UUID)
PY_CHECK_BAD = dict(int=1, float=1.0, Decimal=Decimal(1), str='abc', LongStr='abc', bool=False, bytes=b'abc',
                    date=date(2000, 1, 1), time=time(1, 1, 1), datetime=datetime(2000, 1, 1), timedelta=timedelta(1),
                    UUID=UUID(int=1))

def py_check_fn(d):
    """The callables used as py_check; `bad` is one designated value of the attribute's type."""
    bad = PY_CHECK_BAD[d['tkey']]
    if d['check'] == 'ne': return lambda v: v != bad
    if d['check'] == 'raise':
        def chk(v):
            if v == bad: raise ValueError('py_check says no')
            return True
        return chk
    if d['check'] == 'notcallable': return 5
    return None

def sgn(b):
    return 'None' if b is None else '<0' if b < 0 else '=0' if b == 0 else '>0'

def int_range(d):
    """-> (lo, hi, explicit): explicit when size or unsigned is written in the declaration."""
    kw = d['kw']
    explicit = 'size' in kw or 'unsigned' in kw
    size = kw.get('size') or 32
    if kw.get('unsigned'): return 0, 2 ** size - 1, explicit
    return -(2 ** (size - 1)), 2 ** (size - 1) - 1, explicit

def max_len_of(d):
    # max_len=0 is treated by Pony as "no limit" throughout (the column becomes TEXT): the declaration
    # does not state a usable bound, so the reference does not invent one
    ml = d['args'][0] if d['args'] else d['kw'].get('max_len')
    return None if (ml == 0 and not isinstance(ml, bool)) else ml

def nullable(d):
    if d['kind'] == 'Required': return False
    if d['tkey'] in ('str', 'LongStr'): return d['kw'].get('nullable') is True
    return True

def bounds_reason(d, nv):
    """First violated numeric/length constraint of a value of the declared type, or None."""
    kw, t = d['kw'], d['tkey']
    if t in ('int', 'float', 'Decimal'):
        conv = dict(int=int, float=float, Decimal=Decimal)[t]
        mn, mx = kw.get('min'), kw.get('max')
        if mn is not None and nv < conv(mn): return 'below min (min%s)' % sgn(conv(mn))
        if mx is not None and nv > conv(mx): return 'above max (max%s)' % sgn(conv(mx))
    if t == 'int':
        lo, hi, explicit = int_range(d)
        if nv < lo: return 'below the %s range' % ('size/unsigned' if explicit else 'default int')
        if nv > hi: return 'above the %s range' % ('size/unsigned' if explicit else 'default int')
    if t in ('str', 'LongStr'):
        ml = max_len_of(d)
        if ml is not None and len(nv) > ml: return 'longer than max_len (max_len%s)' % sgn(ml)
    return None

def position(d, nv):
    """Where an acceptable value sits relative to the declared constraints (names the shape of a
    wrongly refused value)."""
    kw, t = d['kw'], d['tkey']
    if nv is None: return 'None'
    if t in ('int', 'float', 'Decimal'):
        conv = dict(int=int, float=float, Decimal=Decimal)[t]
        if kw.get('min') is not None and nv == conv(kw['min']): return 'value == min (min%s)' % sgn(conv(kw['min']))
        if kw.get('max') is not None and nv == conv(kw['max']): return 'value == max (max%s)' % sgn(conv(kw['max']))
        if t == 'int' and nv in int_range(d)[:2]: return 'value at the edge of the int range'
        if nv == 0: return 'zero'
    if t in ('str', 'LongStr'):
        if nv == '': return 'empty string'
        if max_len_of(d) is not None and len(nv) == max_len_of(d): return 'len == max_len'
    return 'value inside all constraints'

def check_reason(d, nv):
    f = py_check_fn(d)
    if f is None: return None
    try: return None if f(nv) else 'py_check returns False'
    except ValueError: return 'py_check raises ValueError'

def sound(d, stored):
    """Is a value that Pony stored acceptable for the declaration?  -> None or the reason it is not."""
    t = d['tkey']
    if stored is None: return None if nullable(d) else 'None stored in a non-nullable attribute'
    ok_type = isinstance(stored, TYPES[t]) and not (t == 'date' and isinstance(stored, datetime)) \
        and not (t in ('float', 'Decimal') and isinstance(stored, bool))     # True in an int attribute is an int: tolerated
    if not ok_type: return 'stored value of type %s' % type(stored).__name__
    if d['kind'] == 'Required' and isinstance(stored, str) and stored == '': return 'empty string stored in a Required attribute'
    if t == 'float' and stored != stored: return None
    if t == 'Decimal' and not stored.is_finite(): return None
    return bounds_reason(d, stored) or check_reason(d, stored)

CONVERTIBLE = dict(date=(datetime, str), time=(str,), datetime=(str, date), timedelta=(str,),
                   UUID=(str, bytes, bytearray, int), bytes=(bytearray, memoryview, str))

def quantized(x, scale):
    import decimal
    with decimal.localcontext() as c:
        c.prec = 200
        return x.quantize(Decimal(10) ** -scale)

def integral(v):
    try: return v == int(v)
    except Exception: return False

def verdict(d, v):
    """The reference predicate: -> ('accept', nv) | ('reject', why) | ('either', why)."""
    t, kw = d['tkey'], d['kw']
    if v is None:
        if d['kind'] == 'Required': return 'reject', 'None for a Required attribute'
        return ('accept', None) if nullable(d) else ('reject', 'None for a non-nullable Optional string')
    nv = v
    if t == 'int':
        if type(v) is not int:
            if isinstance(v, (int, str)) or hasattr(v, '__index__') or (isinstance(v, (float, Decimal)) and integral(v)):
                return 'either', 'int-like value of another type'
            return 'reject', 'wrong type'
    elif t == 'float':
        if isinstance(v, (bool, str, Decimal, bytes, bytearray)) or (type(v) not in (int, float) and
                (hasattr(v, '__float__') or hasattr(v, '__index__'))):
            return 'either', 'value of another type that float() converts'
        if type(v) is int:
            if abs(v) >= 2 ** 53: return 'either', 'int beyond the exact float range'
            nv = float(v)
        elif type(v) is not float: return 'reject', 'wrong type'
        elif not math.isfinite(v): return 'either', 'nan or inf'
    elif t == 'Decimal':
        if isinstance(v, (bool, float, str)) or (isinstance(v, (int, Decimal)) and type(v) not in (int, Decimal)):
            return 'either', 'Decimal-like value of another type'
        if type(v) is int: nv = Decimal(v)
        elif type(v) is not Decimal: return 'reject', 'wrong type'
        elif not v.is_finite(): return 'either', 'Decimal nan or inf'
        prec = d['args'][0] if d['args'] else kw.get('precision', 12)
        scale = d['args'][1] if len(d['args']) > 1 else kw.get('scale', 2)
        if nv and nv.adjusted() >= prec - scale: return 'either', 'more integer digits than precision - scale'
        rounded = quantized(nv, scale)
        if (bounds_reason(d, nv) is None) != (bounds_reason(d, rounded) is None):
            return 'either', 'bound lies between the value and the value rounded to the scale'
    elif t in ('str', 'LongStr'):
        if type(v) is not str: return ('either', 'str subclass') if isinstance(v, str) else ('reject', 'wrong type')
        if kw.get('autostrip', True): nv = v.strip()
        if d['kind'] == 'Required' and nv == '': return 'reject', 'empty string for a Required attribute'
        if nv != v and (check_reason(d, v) is None) != (check_reason(d, nv) is None):
            return 'either', 'py_check before or after autostrip'
    elif t == 'bool':
        if type(v) is not bool: return 'either', 'truth value of another type'
    elif type(v) is not TYPES[t]:
        return ('either', 'convertible value of another type') if isinstance(v, CONVERTIBLE[t]) else ('reject', 'wrong type')
    why = bounds_reason(d, nv) or check_reason(d, nv)
    if why and 'default int' in why: return 'either', 'width of an int declared without size'
    return ('reject', why) if why else ('accept', nv)

# ---- declarations -----------------------------------------------------------------------------------
def decl_verdict(d, dialect='sqlite'):
    """Must the declaration be refused at mapping time?  -> 'accept' | 'reject' | 'either' (+ why)."""
    t, kw, args = d['tkey'], d['kw'], d['args']
    known = dict(int=('size', 'unsigned', 'min', 'max'), float=('min', 'max', 'tolerance'),
                 Decimal=('precision', 'scale', 'min', 'max'), str=('max_len', 'autostrip', 'db_encoding'),
                 LongStr=('autostrip', 'db_encoding', 'max_len'), time=('precision',), datetime=('precision',),
                 timedelta=('precision',)).get(t, ())
    for k in kw:
        if k not in known and k not in ('nullable', 'default'): return 'reject', 'unknown option'
    if d['check'] == 'notcallable': return 'reject', 'py_check is not callable'
    def isint(x): return type(x) is int
    if t == 'int':
        if args: return 'reject', 'positional argument'
        for k in ('min', 'max'):
            if kw.get(k) is not None and not isint(kw[k]): return ('either', 'bool bound') if isinstance(kw[k], bool) else ('reject', 'non-int %s' % k)
        if 'size' in kw and (not isint(kw['size']) or kw['size'] not in (8, 16, 24, 32, 64)): return 'reject', 'bad size'
        if 'unsigned' in kw and not isinstance(kw['unsigned'], bool): return 'reject', 'non-bool unsigned'
        if kw.get('size') == 64 and kw.get('unsigned'): return 'either', 'unsigned 64 is backend dependent'
        lo, hi, explicit = int_range(d)
        mn, mx = kw.get('min'), kw.get('max')
        if mn is not None and mn < lo: return ('reject' if explicit else 'either'), 'min below the range (min%s)' % sgn(mn)
        if mx is not None and mx > hi: return ('reject' if explicit else 'either'), 'max above the range (max%s)' % sgn(mx)
        if mn is not None and mn > hi or mx is not None and mx < lo or (mn is not None and mx is not None and mn > mx):
            return 'either', 'unsatisfiable bounds'
    if t == 'float':
        for k in ('min', 'max'):
            b = kw.get(k)
            if isinstance(b, str):
                try: float(b)
                except ValueError: return 'reject', 'non-numeric %s' % k
                return 'either', 'numeric string bound'
            if b is not None and not isinstance(b, (int, float)): return 'reject', 'non-numeric %s' % k
    if t == 'Decimal':
        if len(args) > 2: return 'reject', 'too many positional arguments'
        p = args[0] if args else kw.get('precision', 12)
        s = args[1] if len(args) > 1 else kw.get('scale', 2)
        if not isint(p) or not isint(s): return 'reject', 'non-int precision or scale'
        if p <= 0 or s < 0 or s > p: return 'reject', 'precision/scale out of order'
        if s == 0: return 'either', 'scale 0'
        for k in ('min', 'max'):
            b = kw.get(k)
            if isinstance(b, str):
                try: Decimal(b)
                except Exception: return 'reject', 'non-numeric %s' % k
            elif b is not None and not isinstance(b, (int, float, Decimal)): return 'reject', 'non-numeric %s' % k
    if t in ('str', 'LongStr'):
        if len(args) > 1: return 'reject', 'too many positional arguments'
        if args and 'max_len' in kw: return 'reject', 'max_len given twice'
        ml = max_len_of(d)
        if ml is not None:
            if t == 'LongStr': return 'reject', 'max_len on LongStr'
            if not isint(ml): return ('either', 'bool max_len') if isinstance(ml, bool) else ('reject', 'non-int max_len')
            if ml < 0: return 'either', 'negative max_len'
    if 'nullable' in kw and kw['nullable'] is False and d['kind'] == 'Optional' and t not in ('str', 'LongStr'):
        return 'either', 'non-nullable Optional of a type without empty value'
    if 'default' in kw:
        dv = kw['default']
        if d['kind'] == 'Required' and (dv is None or dv == ''): return 'reject', 'empty default for a Required attribute'
        if dv is None: return 'either', 'explicit default=None'
        if verdict(d, dv)[0] != 'accept': return 'either', 'default that is not acceptable'
    return 'accept', ''
