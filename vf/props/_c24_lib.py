"""C24 support library: tiny data sets, base-query catalogue, method alphabet, list-semantics oracle.

Design (see c24.py for the property-level description):

* A *node* is a base query plus a chain of query-returning steps (filter/where/order_by/distinct/...,
  `select(x for x in q.limit(l, o))`, `select(y for y in E if y in q[:k])`). Every node is executed (`q[:]`) and
  judged against a small model: the underlying bag of rows B (with their variable bindings, taken from the QX
  reference evaluator for the base query and recomputed by plain Python list operations afterwards), the
  effective DISTINCT flag and the list of sort keys.
* A *terminal* (slice, limit, page, first, get, exists, count, aggregates, random, delete, len, iteration)
  is judged against the Python list operation on R = the ACTUAL full result of its node (obtained from Pony
  in the same session). So every step is judged relative to its predecessor's real answer and a failure is
  attributed to the step that introduced it.
* Sequence positions are demanded exactly only where the sort keys make the order total; otherwise the
  answer must be *some* valid outcome (right size, sub-multiset, sorted, boundary rows forced).
"""
import os, collections
from vf import core
from vf.engines import qx
from vf.engines.qx import X, var, attr, const, call, src, Query, INT, FLOAT, STR, BOOL, COND, canon, Obj, EntRef

Counter = collections.Counter

# ------------------------------------------------------------------------------------------------
# data sets: n <= 4 persons; ties (n), duplicates ((n, m), s, f), None values, a person without dept, a dept
# without persons, two tags with the same label
_DEPTS = [(1, 'A', 10), (2, 'B', None), (3, 'C', 5)]
_TAGS = [(1, 'ab', 1), (2, 'ab', 1), (3, 'y', None)]
def _p(id, cls, n, m, s, t, b, f, dept, tags, grade=None):
    return dict(id=id, cls=cls, n=n, m=m, s=s, t=t, b=b, f=f, d=None, dt=None, dept=dept, tags=tags, grade=grade)
_P1 = _p(1, 'Person', 2, 1, 'ab', 'b', True, 2.5, 1, (1, 2))
_P2 = _p(2, 'Student', None, -2, None, 'ab', None, None, 1, (), 5)
_P3 = _p(3, 'Person', 2, 1, '', 'b', False, -1.5, None, (1,))
_P4 = _p(4, 'Student', -3, 0, 'ab', 'c', True, 2.5, 2, (2, 3))
DATASPECS = {
    't4': (_DEPTS, _TAGS, [_P1, _P2, _P3, _P4]),
    't3': (_DEPTS, _TAGS, [_P1, _P2, _P3]),
    't2': (_DEPTS[:2], _TAGS[:2], [_P1, dict(_P3, id=2, dept=1, s='ab', f=2.5, b=True)]),     # two rows, equal in every projected value
    't1': (_DEPTS[:1], _TAGS[:1], [dict(_P2, id=1)]),                                         # one row, every optional value None
    't0': (_DEPTS[:1], [], []),                                                               # no rows
}
DATASETS = ('t4', 't3', 't2', 't1', 't0')
_DATA = {}
def data_of(name):
    if name not in _DATA: _DATA[name] = qx.Data(name, *DATASPECS[name])
    return _DATA[name]

_DBS = {}
def get_db(name):
    """(db, data, snapshot) - per process in-memory SQLite database holding the data set"""
    key = (os.getpid(), name)
    if key not in _DBS:
        from pony import orm
        db = orm.Database()
        qx.define(db)
        db.bind('sqlite', ':memory:')
        db.generate_mapping(create_tables=True)
        data = data_of(name)
        qx.load(db, data)
        _DBS[key] = (db, data, dump(db))
    return _DBS[key]

TABLES = ('Dept', 'Tag', 'Person', 'Person_Tag')
def dump(db):
    """raw content of every table in a fresh session"""
    from pony.orm import db_session
    out = {}
    with db_session:
        con = db.get_connection()
        for t in TABLES:
            out[t] = sorted(con.execute('SELECT * FROM "%s"' % t).fetchall(), key=repr)
    return out
def restore(db, snap):
    from pony.orm import db_session
    with db_session:
        con = db.get_connection()
        con.execute('PRAGMA defer_foreign_keys = ON')
        for t in reversed(TABLES): con.execute('DELETE FROM "%s"' % t)
        for t in TABLES:
            for row in snap[t]:
                con.execute('INSERT INTO "%s" VALUES (%s)' % (t, ', '.join('?' * len(row))), row)

# ------------------------------------------------------------------------------------------------
# base queries
P, D, T = var('p', 'Person'), var('d', 'Dept'), var('t', 'Tag')
def _q(fors, proj, conds=(), order=(), style='lambda'): return Query(fors, proj, conds, order, style, dataset='c24')

class Base(object):
    """id; kind (signature class); q (qx.Query); rn [(lambda argument name, type)];
    cond (col, attr|None, op, const): the filter predicate, on the result element `col`;
    k1/k2 (col, attr|None): a key with ties / None and a second key; kw / kwnone: keyword filters on an entity result;
    wkw: keyword filter for where() (attribute of the first iterated entity); hcond / hkey: condition / sort key
    over a variable that is not part of the result row; insrc (entity, attr|None): how `y in q[:k]` is written"""
    def __init__(self, id, kind, q, rn, cond, k1, k2, kw=None, kwnone=None, wkw=None, hcond=None, hkey=None, insrc=None):
        self.id, self.kind, self.q, self.rn, self.cond, self.k1, self.k2 = id, kind, q, rn, cond, k1, k2
        self.kw, self.kwnone, self.wkw, self.hcond, self.hkey, self.insrc = kw, kwnone, wkw, hcond, hkey, insrc

ONE = [('p', 'Person')]
DP = [('d', 'Dept'), ('p', attr(D, 'persons'))]
PT = [('p', 'Person'), ('t', attr(P, 'tags'))]
def pa(n): return attr(P, n)
GE0 = call('ge', COND, pa('m'), const(0))
def bases():
    out = []
    ent = dict(rn=[('x', 'Person')], cond=(0, 'n', 'eq', 2), k1=(0, 'n'), k2=(0, 'id'), kw={'n': 2}, kwnone={'s': None})
    out.append(Base('E', 'entity', _q(ONE, P), wkw={'n': 2}, insrc=('Person', None), **ent))
    out.append(Base('Ef', 'entity', _q(ONE, P, [GE0]), wkw={'n': 2}, insrc=('Person', None), **ent))
    out.append(Base('E^id-', 'entity', _q(ONE, P, order=[(pa('id'), True)]), wkw={'n': 2}, insrc=('Person', None), **ent))
    out.append(Base('E^n', 'entity', _q(ONE, P, order=[(pa('n'), False)], style='str'), wkw={'n': 2}, insrc=('Person', None), **ent))
    hid = dict(hcond=GE0, hkey=(pa('id'), True))
    out.append(Base('V.n', 'value', _q(ONE, pa('n')), [('v', INT)], (0, None, 'eq', 2), (0, None), (0, None), wkw={'n': 2}, insrc=('Person', 'n'), **hid))
    out.append(Base('V.s', 'value', _q(ONE, pa('s')), [('v', STR)], (0, None, 'eq', 'ab'), (0, None), (0, None), wkw={'s': 'ab'}, insrc=('Person', 's'), **hid))
    out.append(Base('V.f', 'value', _q(ONE, pa('f')), [('v', FLOAT)], (0, None, 'gt', 0), (0, None), (0, None), wkw={'b': True}, insrc=('Person', 'f'), **hid))
    out.append(Base('V.n^', 'value', _q(ONE, pa('n'), order=[(pa('n'), True)]), [('v', INT)], (0, None, 'eq', 2), (0, None), (0, None), wkw={'n': 2}, insrc=('Person', 'n'), **hid))
    out.append(Base('T.nm', 'tuple', _q(ONE, (pa('n'), pa('m'))), [('a', INT), ('b', INT)], (0, None, 'eq', 2), (0, None), (1, None), wkw={'n': 2}, **hid))
    out.append(Base('T.idn', 'tuple+pk', _q(ONE, (pa('id'), pa('n'))), [('a', INT), ('b', INT)], (1, None, 'eq', 2), (1, None), (0, None), wkw={'n': 2}))
    out.append(Base('T.idn^', 'tuple+pk', _q(ONE, (pa('id'), pa('n')), order=[(pa('n'), False), (pa('id'), True)]), [('a', INT), ('b', INT)], (1, None, 'eq', 2), (1, None), (0, None), wkw={'n': 2}))
    out.append(Base('T.pn', 'tuple+pk', _q(ONE, (P, pa('n'))), [('a', 'Person'), ('b', INT)], (1, None, 'eq', 2), (1, None), (0, 'id'), wkw={'n': 2}))
    out.append(Base('J.p', 'join entity', _q(DP, P), insrc=('Person', None), **ent))
    out.append(Base('J.d', 'join distinct', _q(DP, D), [('x', 'Dept')], (0, 'budget', 'gt', 5), (0, 'budget'), (0, 'id'), kw={'budget': 10},
                    kwnone={'budget': None}, hcond=GE0, hkey=(pa('id'), True), insrc=('Dept', None)))
    out.append(Base('J.dn', 'join distinct', _q(DP, (attr(D, 'name'), pa('n'))), [('a', STR), ('b', INT)], (1, None, 'eq', 2), (1, None), (0, None), **hid))
    out.append(Base('J.tl', 'join distinct', _q(PT, attr(T, 'label')), [('v', STR)], (0, None, 'eq', 'ab'), (0, None), (0, None), insrc=('Tag', 'label'), **hid))
    out.append(Base('J.pt', 'join tuple+pk', _q(PT, (pa('id'), attr(T, 'id'))), [('a', INT), ('b', INT)], (0, None, 'lt', 3), (0, None), (1, None)))
    out.append(Base('G.nc', 'grouped', _q(ONE, (pa('n'), call('qcount', INT, P))), [('a', INT), ('b', INT)], (1, None, 'gt', 1), (1, None), (0, None), wkw={'b': True}, hcond=GE0))
    out.append(Base('G.bs', 'grouped', _q(ONE, (pa('b'), call('qsum', INT, pa('m')))), [('a', BOOL), ('b', INT)], (1, None, 'gt', 0), (1, None), (0, None), wkw={'n': 2}, hcond=GE0))
    out.append(Base('A.s', 'aggregate', _q(ONE, call('qsum', INT, pa('m'))), [('v', INT)], (0, None, 'gt', 0), (0, None), (0, None), wkw={'n': 2}, hcond=GE0))
    return out
_BASES = None
def base_by_id(id):
    global _BASES
    if _BASES is None: _BASES = {b.id: b for b in bases()}
    return _BASES[id]

ENT_COND = {'Person': ('n', 'eq', 2), 'Dept': ('budget', 'gt', 5), 'Tag': ('label', 'eq', 'ab')}
ENT_K1 = {'Person': 'n', 'Dept': 'budget', 'Tag': 'label'}
ENT_KW = {'Person': ({'n': 2}, {'s': None}), 'Dept': ({'budget': 10}, {'budget': None}), 'Tag': ({'label': 'ab'}, {'w': None})}

# ------------------------------------------------------------------------------------------------
# model rows
class MRow(object):
    __slots__ = ('vals', 'env', 'opt', 'c')
    def __init__(self, vals, env=None, opt=False):
        self.vals, self.env, self.opt = tuple(vals), env, opt
        self.c = crow(self.vals)
def crow(vals): return tuple(canon(v) for v in vals)

class Node(object):
    """one query in the chain tree"""
    def __init__(self, ds, base, data):
        self.ds, self.base, self.data = ds, base, data
        self.steps = []            # JSON step descriptions
        self.pq = None             # pony Query
        self.src = 'qx'            # 'qx': rows come from the reference evaluator for self.mq ; 'list': explicit rows
        self.mq = None             # qx.Query (base plus where-conditions)
        self.post = []             # result-named conditions applied to the rows of mq
        self.B = []                # underlying bag of MRow
        self.rn = list(base.rn)
        self.orig = None           # text of each result column in terms of the iterated variables
        self.auto = False          # automatic DISTINCT of the query form: True / False / 'either'
        self.distinct = None       # explicit .distinct() / .without_distinct()
        self.order = []            # [('col', i, attr, desc) | ('hid', X, desc)], most significant first
        self.insrc = base.insrc
        self.single_for = len(base.q.fors) == 1
        self.aggregated = base.kind in ('grouped', 'aggregate')
        self.dropped = False       # an ancestor step (or the ordered base) lost the automatic DISTINCT: judged there
        self.wrapped = False       # the query iterates over a limited subquery / tests membership in one
        self.R = None              # actual result, canonical rows
        self.Rn = None             # actual result, normalised rows
        self.failed = None
    def eff_distinct(self):
        if self.distinct is not None: return self.distinct
        if self.dropped and self.auto is True and self.order: return False      # known: ordering removed the automatic DISTINCT
        return self.auto
    def child(self, step):
        n = Node.__new__(Node)
        n.__dict__.update(self.__dict__)
        n.steps = self.steps + [step]; n.post = list(self.post); n.order = list(self.order); n.rn = list(self.rn)
        n.R = n.Rn = n.pq = n.failed = None
        n.__dict__.pop('_km', None); n.__dict__.pop('_total', None)
        return n

_EV = {}
def evaluator(data):
    ev = _EV.get(data.name)
    if ev is None: ev = _EV[data.name] = qx.Evaluator(data)
    return ev

def res_env(node, vals):
    return qx.Env({name: v for (name, _), v in zip(node.rn, vals)})

def qx_rows(node):
    exp = node.mq.expected(node.data, qx.Evaluator(node.data))
    if exp.undecided or any(r.optional or r.wild for r in exp.rows): raise core.HarnessError('base query %s has no fixed reference result' % node.base.id)
    rows = [MRow(r.vals, r.env) for r in exp.rows]
    for pr in node.post: rows = [r for r in rows if pred_row(node, pr, r) is True]
    return rows

OPS = {'eq': '==', 'gt': '>', 'lt': '<', 'ge': '>=', 'le': '<=', 'ne': '!='}
_PY = {'eq': lambda a, b: a == b, 'gt': lambda a, b: a > b, 'lt': lambda a, b: a < b, 'ge': lambda a, b: a >= b,
       'le': lambda a, b: a <= b, 'ne': lambda a, b: a != b}
def pred(pr, vals):
    """three-valued truth of a predicate on a result row: ('col', col, attr, op, const) | ('kw', col, {attr: value})"""
    if pr[0] == 'col':
        v = col_value(vals[pr[1]], pr[2])
        if v is None: return None
        return _PY[pr[3]](v, pr[4])
    o = vals[pr[1]]
    if o is None: return None
    res = True
    for a, c in sorted(pr[2].items()):
        v = getattr(o, a)
        if c is None: r = v is None
        elif v is None: r = None
        else: r = v == c
        if r is False: return False
        if r is None: res = None
    return res

def pred_row(node, pr, row):
    """pred() plus ('xp', X): a condition tree over the variables bound in the row's environment (the iterated
    variables of a base query, the result names of a query over a limited subquery), evaluated by the QX reference
    evaluator - used for conditions with aggregates over collections"""
    if pr[0] != 'xp': return pred(pr, row.vals)
    if row.env is None: raise core.HarnessError('row without environment')
    try: return evaluator(node.data).cond(pr[1], qx.Env(dict(row.env.vars)))
    except qx.Undef: return None

# aggregates over a collection: entity -> (collection attribute, numeric attribute of its items, count bound, sum bound)
AGG = {'Person': ('tags', 'w', 2, 1), 'Dept': ('persons', 'n', 2, 1), 'Tag': ('persons', 'n', 2, 1)}
def agg_target(node):
    """(result name, original name, entity) of the variable whose collection the aggregate forms use: the first result
    column that is an entity (None: no such column, or an aggregated query - no aggregate forms there)"""
    if node.aggregated: return None
    for i, (nm, t) in enumerate(node.rn):
        if qx.is_ent(t) and t in AGG and node.orig[i].isidentifier(): return nm, node.orig[i], t
    return None
def agg_trees(node, res=False):
    """(count(v.coll) < c, sum(v.coll.a) >= s, count(v.coll), sum(v.coll.a)) as QX trees over the original name
    (res: over the result / lambda argument name - for the text handed to Pony only)"""
    r, o, ent = agg_target(node)
    coll, a, cb, sb = AGG[ent]
    v = var(r if res else o, ent)
    cnt = call('count', INT, attr(v, coll)); sm = call('sum', INT, attr(attr(v, coll), a))
    return call('lt', COND, cnt, const(cb)), call('ge', COND, sm, const(sb)), cnt, sm

def col_value(v, a):
    if a is None or v is None: return v
    return getattr(v, a)
def key_of(node, row):
    out = []
    ev = evaluator(node.data)
    for k in node.order:
        if k[0] == 'col':
            v = col_value(row.vals[k[1]], k[2]); desc = k[3]
        else:
            v = ev.value(k[1], row.env) if row.env is not None else qx.UNORDERED; desc = k[2]
        out.append(qx._neg(v) if desc else v)
    return out

def keymap(node):
    """canonical row -> key list, or None when a result row has several candidate keys (ordering by a hidden
    variable under DISTINCT) or there is no order (memoised per node)"""
    km = node.__dict__.get('_km', 0)
    if km == 0: km = node._km = _keymap(node)
    return km
def total(node):
    t = node.__dict__.get('_total')
    if t is None: t = node._total = is_total(keymap(node), node.R)
    return t
def _keymap(node):
    if not node.order: return None
    km = {}
    for r in node.B:
        k = key_of(node, r)
        old = km.get(r.c)
        if old is not None and (qx._lt(old, k) is not False or qx._lt(k, old) is not False): return None
        km[r.c] = k
    return km

def sorted_ok(km, got):
    """no row may come after a row with a strictly greater key"""
    ks = [km.get(g) for g in got]
    if any(k is None for k in ks): return True
    for i in range(len(ks)):
        for j in range(i + 1, len(ks)):
            if qx._lt(ks[j], ks[i]) is True: return False
    return True

def is_total(km, rows):
    """every two distinct result rows are strictly ordered by the keys"""
    if km is None: return False
    ks = [km.get(g) for g in rows]
    if any(k is None for k in ks): return False
    for i in range(len(ks)):
        for j in range(i + 1, len(ks)):
            a, b = qx._lt(ks[i], ks[j]), qx._lt(ks[j], ks[i])
            if not (a is True or b is True): return False
    return True

def ms_compare(rows, got, distinct):
    """None if `got` (canonical rows) is the multiset denoted by rows under the DISTINCT flag, else the kind"""
    need, opt = Counter(), Counter()
    for r in rows: (opt if r.opt else need)[r.c] += 1
    if distinct:
        need = Counter(dict.fromkeys(need, 1))
        opt = Counter({k: 1 for k in opt if k not in need})
    g = Counter(got)
    missing = need - g
    extra = g - need - opt
    if not missing and not extra: return None
    if not missing and all(k in need or k in opt for k in extra): return 'duplicate rows'
    if missing and extra: return 'missing and extra rows'
    return 'missing rows' if missing else 'extra rows'

def judge_node(node):
    """(kind | None, note): is the actual result of the node what the model says? note: 'distinct-dropped'
    when the only difference is that the automatic DISTINCT is gone while the query is ordered"""
    d = node.eff_distinct()
    if d == 'either':
        k = ms_compare(node.B, node.R, True)
        if k is not None: k = ms_compare(node.B, node.R, False)
    else: k = ms_compare(node.B, node.R, d)
    if k is not None:
        note = None
        if k == 'duplicate rows' and node.distinct is None and node.auto is True and node.order and not node.dropped and ms_compare(node.B, node.R, False) is None:
            note = 'distinct-dropped'
        return k, note
    km = keymap(node)
    if km is not None and not sorted_ok(km, node.R): return 'not sorted by the keys', None
    return None, None

# ------------------------------------------------------------------------------------------------
# bound classes
def bound_class(n, start, stop):
    if n == 0: return 'empty result'
    if stop is not None and stop <= start: return 'limit=0'
    if start >= n: return 'offset>=n'
    if stop is None: return 'offset>0, no limit' if start else 'no bounds'
    if stop > n: return 'offset+limit>n'
    return 'offset>0' if start else 'offset=0'

def valid_window(node, km, got, start, stop):
    """can `got` be R[start:stop] for SOME order of R that the sort keys allow? -> None | kind"""
    R = node.R
    n = len(R)
    size = len(R[start:stop])
    if len(got) != size: return 'wrong number of rows'
    rest = Counter(R) - Counter(got)
    if sum(rest.values()) != n - size or (Counter(got) - Counter(R)): return 'rows that are not in the full result'
    if km is None: return None
    if not sorted_ok(km, got): return 'not sorted by the keys'
    if not got: return None
    gk = [km.get(g) for g in got]
    if any(k is None for k in gk): return None
    must_before = must_after = free = 0
    for r, cnt in rest.items():
        k = km.get(r)
        if k is None: free += cnt; continue
        lt_any = any(qx._lt(k, g) is True for g in gk)      # strictly before some returned row
        gt_any = any(qx._lt(g, k) is True for g in gk)
        if lt_any and gt_any: return 'a skipped row lies strictly inside the returned window'
        if lt_any: must_before += cnt
        elif gt_any: must_after += cnt
        else: free += cnt
    if not (must_before <= start <= must_before + free): return 'window is at the wrong position'
    return None

def judge_window(node, got, start, stop):
    """slice-like answer against R[start:stop]; returns (kind | None, exact: bool)"""
    exp = node.R[start:stop]
    if got == exp: return None, True
    km = keymap(node)
    if total(node):
        if len(got) != len(exp): return 'wrong number of rows', False
        return 'wrong rows', False
    return valid_window(node, km, got, start, stop), False
