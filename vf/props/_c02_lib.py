"""C02 helpers: one *engine* per dialect that answers a QX query.

  SqliteEngine            the real SQLite provider on an in-memory database (as C01)
  ModelEngine(dialect)    the real PostgreSQL / MySQL provider class (translator, builder, converters) on a mock
                          pool; every statement Pony would send to the driver is executed on the DM substrate
                          (vf.engines.dm, extended mode) holding the same tables under the names and column types
                          that dialect's provider generates; rows go back through Pony's own result pipeline
                          (sql2py converters, entity construction, identity map). The data set is loaded through
                          Pony as well (the dialect's INSERT statements run on the substrate).
"""
import os, re, datetime
from vf import core
from vf.engines import dm, qx

DIALECTS = ('sqlite', 'postgres', 'mysql')
_ISO_DATE = re.compile(r'\d{4}-\d{2}-\d{2}\Z')

class Cursor(object):
    """what the fake driver hands back to Pony"""
    def __init__(self, rows, description=None):
        self.rows = rows or []
        self.description = description or []
        self.rowcount = len(self.rows)
        self.pos = 0
        self.lastrowid = None
    def fetchall(self):
        r = self.rows[self.pos:]; self.pos = len(self.rows); return r
    def fetchmany(self, size=1):
        r = self.rows[self.pos:self.pos + size]; self.pos += len(r); return r
    def fetchone(self):
        r = self.fetchmany(1)
        return r[0] if r else None
    def close(self): pass

def deliver(v):
    """driver delivery model: a DATE value arrives as datetime.date (psycopg2 and pymysql both do that); the substrate keeps
    dates as ISO text and no string of the data domain looks like one. Numbers and text arrive as they are; Pony's own
    converters (bool(), Decimal(), int) take it from there."""
    if isinstance(v, str) and len(v) == 10 and _ISO_DATE.match(v):
        try: return datetime.date(int(v[:4]), int(v[5:7]), int(v[8:]))
        except ValueError: return v
    return v

class SqliteEngine(object):
    name = 'sqlite'
    def __init__(self, dataset='pairs', define=None, load=None):
        if define is None: self.db, self.data = qx.get_db(dataset)
        else:
            from pony import orm
            self.db, self.data = orm.Database(), None
            define(self.db)
            self.db.bind('sqlite', ':memory:')
            self.db.generate_mapping(create_tables=True)
            load(self.db)
        self.n = 0
    def run(self, q):
        self.n += 1
        if self.n % 3000 == 0: qx.clear_caches(self.db)
        return q.run(self.db, 'str')
    def sql(self, q):
        from pony.orm import db_session
        with db_session: return self.db, q.make(self.db, 'str').get_sql()

class ModelEngine(object):
    def __init__(self, dialect, dataset='pairs', define=None, load=None):
        self.name = dialect
        self.data = qx.dataset(dataset) if define is None else None
        self.db = db = dm.capture_database(dialect)
        (define or qx.define)(db)
        db.generate_mapping()
        self.paramstyle = db.provider.paramstyle
        self.sub = dm.Substrate(dialect, extended=True)
        # the tables, under the names and with the column types this dialect's provider generates (SQLite derives the column
        # affinity from the declared type: INTEGER, TEXT/VARCHAR -> TEXT, DOUBLE [PRECISION] -> REAL, BOOLEAN/DECIMAL/DATE -> NUMERIC)
        for t in db.schema.tables.values():
            cols = ', '.join('"%s" %s' % (c.name, c.sql_type) for c in t.column_list)
            self.sub.con.execute('create table "%s" (%s)' % (t.name, cols))
        db._exec_sql = self._exec_sql          # instance attribute: shadows CaptureDatabase._exec_sql
        self.last = None
        self.n = 0
        if load is None: qx.load(db, self.data)
        else: load(db)
        self.loaded = dict((t.name, self.sub.con.execute('select count(*) from "%s"' % t.name).fetchone()[0]) for t in db.schema.tables.values())
    def _exec_sql(self, sql, arguments=None, returning_id=False, start_transaction=False):
        self.db.log.append((sql, arguments))
        if len(self.db.log) > 50: del self.db.log[:-10]
        self.last = (sql, arguments)
        rows = self.sub.execute(sql, arguments, self.paramstyle)
        if returning_id: return 1
        if rows is None: return Cursor([])
        return Cursor([tuple(deliver(v) for v in r) for r in rows])
    def run(self, q):
        """normalised result rows; raises dm.Undecided / dm.DialectError / whatever Pony raises (= refused)"""
        self.n += 1
        if self.n % 3000 == 0: qx.clear_caches(self.db)
        self.last = None
        return q.run(self.db, 'str')

class RenderEngine(object):
    """Oracle / CockroachDB: the real provider class renders the query; nothing is executed. Checked: no internal crash
    where SQLite translates the query, and every placeholder binds under the PEP 249 binder model."""
    def __init__(self, dialect):
        self.name = dialect
        self.db = db = dm.capture_database(dialect)
        qx.define(db)
        db.generate_mapping()
        self.paramstyle = db.provider.paramstyle
        self.n = 0
    def render(self, q):
        """(sql, number of placeholders bound); raises whatever Pony raises"""
        from pony.orm import db_session
        self.n += 1
        if self.n % 3000 == 0: qx.clear_caches(self.db)
        with db_session:
            pq = q.make(self.db, 'str')
            sql, args, _, _ = pq._construct_sql_and_arguments()
        text, vals = dm.bind_placeholders(sql, args, self.paramstyle)
        return sql, text, vals

# ------------------------------------------------------------------------------------------------------------
# what is decided on which dialect (static part, by the expression tree of the query)
INT, FLOAT, DEC, STR, BOOL, DATE, COND = qx.INT, qx.FLOAT, qx.DEC, qx.STR, qx.BOOL, qx.DATE, qx.COND
R_DATE = 'interval / date arithmetic (INTERVAL literals, ADDDATE/SUBDATE/TIMEDIFF, date - date)'
R_GC = 'group_concat (string_agg / GROUP_CONCAT: order of the parts, separator syntax)'
R_DECDIV = 'division / modulo with a NUMERIC operand (exact decimal arithmetic of the server vs floats of the substrate)'
R_FMOD = 'modulo with a floating-point operand (the substrate % works on integers only; PostgreSQL has no % for double precision)'
R_MYDIV = 'MySQL: integer / integer yields a decimal, not an integer (operator cannot be modelled on the substrate)'
R_MYAVG = 'MySQL: AVG() of exact-value (integer) arguments is a DECIMAL rounded to scale + 4 digits (div_precision_increment), not a double'
R_MYDATE = 'MySQL: result type of COALESCE / CASE / LEAST / GREATEST mixing a DATE column with a date parameter (a string literal under pymysql) is a string; type aggregation is not modelled'
R_PGCONCAT = 'PostgreSQL: || with a floating-point operand (the text form of a double differs between the substrate and PostgreSQL; || cannot be modelled)'
R_POW = 'division / modulo of a ** result: Python gives an int or a float depending on the sign of the exponent, SQL power() always a double, and / // % are type-sensitive on the substrate'
R_ORD = 'collation: ordering of strings (<, <=, >, >=, between, min/max, ORDER BY) follows the database collation'
R_MYEQ = 'collation: MySQL string equality / DISTINCT / GROUP BY / IN are case- and accent-insensitive and pad-space under the default collation'
R_ZERO = 'PostgreSQL raises division_by_zero for the whole statement (Python raises ZeroDivisionError on that row, too)'
ORDER_OPS = ('lt', 'le', 'gt', 'ge', 'between', 'min2', 'max2', 'min3', 'max3', 'min', 'max', 'qmin', 'qmax')
EQ_OPS = ('eq', 'ne', 'in_list', 'not_in_list', 'in_ms', 'not_in_ms', 'chain_eq_eq', 'count', 'qcount')
STATIC_REASONS = (R_DATE, R_GC, R_DECDIV, R_FMOD, R_MYDIV, R_ORD, R_MYEQ, R_MYAVG, R_MYDATE, R_PGCONCAT, R_POW)

def _item(t): return qx.item_t(t) if qx.is_ms(t) else t

def node_reason(d, n):
    op = n.op
    if op in ('date_add', 'date_sub', 'date_diff'): return R_DATE
    if op in ('group_concat', 'qgroup_concat'): return R_GC
    ts = [_item(c.t) for c in n.a]
    if op in ('truediv', 'floordiv', 'mod'):
        if DEC in ts: return R_DECDIV
        if op == 'mod' and FLOAT in ts: return R_FMOD
        if any(m.op == 'pow' and m.t == INT for c in n.a for m in qx.walk(c)): return R_POW
        if d == 'mysql' and op != 'mod' and ts == [INT, INT]: return R_MYDIV
    if d == 'postgres' and op in ('concat', 'concat_fn2', 'concat_fn3', 'fstr2') \
            and any(c.t == FLOAT or any(m.op in ('pow', 'truediv', 'to_float') for m in qx.walk(c)) for c in n.a): return R_PGCONCAT
    if d == 'mysql':
        if op in ('avg', 'qavg') and ts == [INT]: return R_MYAVG
        if n.t == DATE and op in ('coalesce2', 'coalesce3', 'ifexp', 'min2', 'max2', 'min3', 'max3') \
                and any(c.t == DATE and (c.op == 'param' or (c.op != 'const' and qx.is_external(c))) for c in n.a): return R_MYDATE
    if STR in ts:
        if op in ORDER_OPS: return R_ORD
        if d == 'mysql' and op in EQ_OPS: return R_MYEQ
    return None      # hybrid methods / properties of the schema expand to * + > and string + only

def static_reason(d, q):
    """None, or why the answer of dialect d for query q is not decided by the model"""
    if d == 'sqlite': return None
    for x in q.all_nodes():
        for n in qx.walk(x):
            if qx.is_leaf(n): continue
            r = node_reason(d, n)
            if r: return r
    if any(k.t == STR for k, _ in q.order): return R_ORD
    if d == 'mysql':
        proj = q.proj if isinstance(q.proj, tuple) else (q.proj,)
        aggregated = any(qx.has_qagg(p) for p in proj) or any(qx.lifted_aggs(p) for p in proj)
        if (q.distinct() or aggregated) and any(p.t == STR and not qx.has_qagg(p) for p in proj): return R_MYEQ
    return None

def zero_divisor(ev, data, q):
    """does a divisor of / // % evaluate to zero on some row of the iterated entity?"""
    for x in q.all_nodes():
        for n in qx.walk(x):
            if n.op in ('truediv', 'floordiv', 'mod') and len(n.a) == 2:
                dv = n.a[1]
                names = set(m.v for m in qx.walk(dv) if m.op == 'var')
                if not names:
                    try:
                        if ev.value(dv, qx.Env({})) == 0: return True
                    except Exception: pass
                    continue
                if names != {'p'}: return True
                for o in data.persons:
                    try:
                        if ev.value(dv, qx.Env({'p': o})) == 0: return True
                    except Exception: pass
    return False

# ------------------------------------------------------------------------------------------------------------
# a second, tiny schema with a composite primary key: the COUNT(DISTINCT row) forms
def ck_define(db):
    from pony.orm import PrimaryKey, Required, Optional, Set
    class Owner(db.Entity):
        id = PrimaryKey(int)
        name = Required(str)
        items = Set('Item')
    class Item(db.Entity):
        a = Required(int)
        b = Required(int)
        w = Optional(int)
        owner = Optional(Owner)
        PrimaryKey(a, b)

CK_OWNERS = [(1, 'x'), (2, 'y'), (3, 'z')]
CK_ITEMS = [(1, 1, 5, 1), (1, 2, None, 1), (2, 1, 5, 2), (2, 2, -1, None), (3, 1, 2, 1)]       # a, b, w, owner
def ck_load(db):
    from pony.orm import db_session
    with db_session:
        O = {i: db.Owner(id=i, name=n) for i, n in CK_OWNERS}
        for a, b, w, o in CK_ITEMS: db.Item(a=a, b=b, w=w, owner=O.get(o))

class SrcQuery(object):
    """a query given as source text over the composite-key schema, with its Python answer (a set of rows)"""
    order, proj, fors, conds = (), (), (), ()
    def __init__(self, name, text, expect, method=None):
        self.name, self.text, self.expect, self.method = name, text, expect, method
    def all_nodes(self): return []
    def distinct(self): return False
    def source(self, fe='str'): return 'select(%r)%s' % (self.text, '.count()' if self.method == 'count' else '')
    def to_json(self): return dict(form=self.name)
    def run(self, db, fe='str'):
        from pony import orm
        with orm.db_session:
            q = orm.select(self.text, dict(Owner=db.Owner, Item=db.Item, count=orm.count, len=len))
            if self.method == 'count': return [(q.count(),)]
            return [qx.norm_row(r) for r in q[:]]

def ck_queries():
    per_owner = {o: len([i for i in CK_ITEMS if i[3] == o]) for o, _ in CK_OWNERS}
    pos_w = {o: len([i for i in CK_ITEMS if i[3] == o and i[2] is not None and i[2] > 0]) for o, _ in CK_OWNERS}
    E = lambda o: qx.EntRef('Owner', o)
    return [SrcQuery('count(o.items) per owner', '(o.id, count(o.items)) for o in Owner', set(per_owner.items())),
            SrcQuery('len(o.items) per owner', '(o.id, len(o.items)) for o in Owner', set(per_owner.items())),
            SrcQuery('count(i) of all items', 'count(i) for i in Item', {(len(CK_ITEMS),)}),
            SrcQuery('count(i) joined per owner', '(o.id, count(i)) for o in Owner for i in o.items', set((o, n) for o, n in per_owner.items() if n)),
            SrcQuery('having count(o.items) > 1', 'o for o in Owner if count(o.items) > 1', set((E(o),) for o, n in per_owner.items() if n > 1)),
            SrcQuery('count(filtered subquery) per owner', '(o.id, count(i for i in o.items if i.w > 0)) for o in Owner', set(pos_w.items())),
            SrcQuery('items.count()', 'i for i in Item', {(len(CK_ITEMS),)}, method='count')]
