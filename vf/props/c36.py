"""C36 A forked process never uses its parent's database connection.

Process explorer. Every history is executed in a process P of its own (forked from a thread-free pool
worker): P binds one or two Database objects through one of the four pool implementations, reaches an
enumerated *fork point*, forks a child C, C may fork a grandchild G (thorough: G a great-grandchild GG), and
all processes run read and write sessions in an order fixed by pipes. Forked processes report through a
pipe as JSON and leave with os._exit. A history is the product of
  pool x fork point x forking thread x how the other thread ends x order of the sessions of P and C
  x first sessions of C (rw / wr) x fork depth (1, 2; thorough 3)
  x what a process that forks again did BEFORE it forked ('sessions' = read + write, 'nothing' = the
    intermediate process of a double fork / daemonisation opens no session at all, 'r', 'w'); after its own
    child has finished, such a process runs the sessions it has not run yet (so it is judged too)
  x number of bound Database objects (1, 2: two pools, each on a file of its own, both hold whatever the
    fork point leaves pooled; every session step is run on both; P uses them in order a,b, the forked
    processes in order a,b or b,a).
cases() lists the sub-product each tier takes (quick: depth 2 with 'sessions' and 'nothing'; two databases
at depth 1 on the fork points that leave something pooled; thorough: everything above, depth 3 and two
databases at depth 2 with the main thread forking).

Pools (code under test is /repo's, unmodified):
  sqlite  SQLitePool on a real file database, DB-API seam VfConnection (records the creator pid)
  pg      PGPool   on the stub psycopg2 with a fake connection factory (psycopg2._vf_connect)
  base    Pool     (what DBAPIProvider.get_pool returns; used by the MySQL provider) on the same fake
  oracle  OraPool  on the stub cx_Oracle.SessionPool (cx_Oracle._vf_pool)
The fakes (vf/props/_c36_fake.py) are shells around a sqlite3 file that only record calls: results for
pg / base / oracle are model-based in that sense, the pool code itself runs for real.

Fork points: before bind; idle pooled connection left by bind; idle pooled connection after a session;
while ANOTHER thread holds an open read session / an open write transaction over all databases (the child
contains only the forking thread); after db.disconnect(). A fork from INSIDE an open session of the
forking thread is excluded: the child would still be inside the parent's session, which the property does
not cover.

Oracle: (1) no driver call in any forked process on a connection / session pool created by another process
- every call is tagged (pid, id(con), creator pid); (2) P's sessions keep working; (3) every read session
sees exactly the rows committed before it, per database, by any process (global order of the sessions: a
counter in a shared anonymous mapping; the processes take turns); (4) no write session of a forked process
blocks - it runs under SIGALRM; "blocked" = the thread stands at the same frames at consecutive alarms (3 s
apart) while waiting for a provider lock that is locked although no other thread exists in the process
(nobody can ever release it; independent of timing), or stands still for four alarms. A process whose write
blocked writes no more and forks no more.
Vacuity guards: double-fork histories in which the last process really set an inherited connection aside;
two-database histories in which the child set the inherited connections of both pools aside.
"""
import os, sys, json, time, mmap, struct, signal, select, threading, traceback, sqlite3
from vf import core
from vf.seams import dbapi
from vf.props import _c36_fake as fake       # imported before the first fork (no per-history compile under -B)

LEVEL = 'model_checking'

POOLS = ('sqlite', 'pg', 'base', 'oracle')
POINTS = ('before-bind', 'idle-after-bind', 'idle-after-session', 'other-thread-read-session',
          'other-thread-write-transaction', 'after-disconnect')
ALARM_S = 3
TOKEN_TIMEOUT = 600          # generous: only bound the damage of a harness bug (a loaded machine is slow, not wrong)
CASE_TIMEOUT = 1800
FORK_GRACE = 10

MIDS = ('sessions', 'nothing', 'r', 'w')    # what a process that forks again did BEFORE it forked
WHO = {0: 'p', 1: 'c', 2: 'g', 3: 'gg'}
NAMES = dict(p='parent', c='child', g='grandchild', gg='great-grandchild')

def cases(tier):
    quick = tier == 'quick'
    out = []
    for pool in POOLS:
        for point in POINTS:
            ends = ('commit', 'rollback') if point == 'other-thread-write-transaction' else ('-',)
            forkers = ('main', 'helper') if point != 'before-bind' and (not quick or (pool == 'sqlite' and point.startswith('other-thread'))) else ('main',)
            pooled = point not in ('before-bind', 'after-disconnect')      # something to inherit at the first fork
            def add(forker, end, order, child_ops, depth, mid='sessions', dbs=1, use='a'):
                out.append(dict(pool=pool, point=point, forker=forker, holder_end=end, order=order, child_ops=child_ops,
                                depth=depth, mid=mid, dbs=dbs, use=use))
            for forker in forkers:
                for end in ends:
                    # family 0: one database, every process runs sessions before it forks
                    for order in ('child-first', 'parent-first'):
                        for child_ops in ('rw', 'wr'):
                            for depth in (1, 2):
                                if quick and depth == 2 and (order, child_ops) != ('child-first', 'rw'): continue
                                add(forker, end, order, child_ops, depth)
                    # family A: what the intermediate processes did before they forked again (nothing = daemonisation)
                    if forker == 'main' or not quick:
                        for mid in MIDS[1:]:
                            if quick and mid != 'nothing': continue
                            for order in ('child-first', 'parent-first'):
                                if (quick or forker != 'main') and order != 'child-first': continue
                                add(forker, end, order, 'rw', 2, mid=mid)
                    if forker == 'main' and not quick:
                        for mid in MIDS: add(forker, end, 'child-first', 'rw', 3, mid=mid)
                    # family B: two bound Database objects (two pools); descendants use them in either order
                    if forker == 'main' and (pooled or not quick):
                        for use in ('ab', 'ba'):
                            for order in ('child-first', 'parent-first'):
                                for child_ops in ('rw', 'wr'):
                                    if quick and (order, child_ops) != ('child-first', 'rw'): continue
                                    add(forker, end, order, child_ops, 1, dbs=2, use=use)
                            if not quick:
                                for mid in MIDS[:2]: add(forker, end, 'child-first', 'rw', 2, mid=mid, dbs=2, use=use)
    return out

def case_name(c):
    return '%(pool)s/%(point)s/%(forker)s/%(holder_end)s/%(order)s/%(child_ops)s/%(depth)d/%(mid)s/%(dbs)d%(use)s' % c

def pre_ops(case, level):
    """sessions a descendant runs before it forks again (or, for the last process of the chain, at all)"""
    if level == case['depth']: return case['child_ops'] if level == 1 else 'rwr'
    return {'sessions': case['child_ops'] if level == 1 else 'rw', 'nothing': '', 'r': 'r', 'w': 'w'}[case['mid']]
def post_ops(pre):
    """sessions of an intermediate process after its own child has finished: whatever it has not done yet, then a read"""
    return {'': 'rw', 'r': 'wr', 'w': 'r'}.get(pre, 'r')
def use_order(case, level):
    if case['dbs'] == 1: return [0]
    return [0, 1] if (level == 0 or case['use'] == 'ab') else [1, 0]

# =================================================================================================
# inside the history processes
# =================================================================================================
LOG = []
def _logger(kind, sql, args, con):
    LOG.append([os.getpid(), id(con) if con is not None else None, getattr(con, 'vf_pid', None), kind])

class Blocked(BaseException):
    pass

def _stack(frame):
    out = []
    while frame is not None:
        out.append('%s:%s:%d' % (os.path.basename(frame.f_code.co_filename), frame.f_code.co_name, frame.f_lineno))
        frame = frame.f_back
    return out

class Alarm(object):
    """run a session under SIGALRM. blocked = the thread stands at the same frames and lines at consecutive
    alarms AND either `proof()` holds (it waits for a lock that is locked while no other thread exists in
    the process: nobody can ever release it - independent of timing) or this has been so for 4 alarms"""
    def __init__(self, proof=None): self.last, self.fired, self.same, self.proof = None, 0, 0, proof
    def __enter__(self):
        self.old = signal.signal(signal.SIGALRM, self.on_alarm)
        signal.alarm(ALARM_S)
        return self
    def on_alarm(self, signum, frame):
        self.fired += 1
        st = _stack(frame)
        self.same = self.same + 1 if (self.last is not None and st[:3] == self.last[:3]) else 0
        if self.same >= 1 and self.proof is not None and self.proof(st): raise Blocked(json.dumps(st[:12]))
        if self.same >= 3: raise Blocked(json.dumps(st[:12]))
        if self.fired > 100: raise Blocked(json.dumps(['no progress for too long'] + st[:12]))
        self.last = st
        signal.alarm(ALARM_S)
    def __exit__(self, *a):
        signal.alarm(0)
        signal.signal(signal.SIGALRM, self.old)

def provider_locks(db):
    prov = db.provider
    return dict((n, getattr(prov, n).locked()) for n in ('transaction_lock', 'pre_transaction_lock')
                if hasattr(getattr(prov, n, None), 'locked'))

def bind(db, pool, path):
    if pool == 'sqlite':
        db.bind('sqlite', path, factory=dbapi.VfConnection, timeout=5)
    elif pool == 'pg':
        db.bind('postgres', path)
    elif pool == 'base':
        from pony.orm.dbproviders.postgres import PGProvider
        from pony.orm.dbapiprovider import DBAPIProvider
        class BasePoolProvider(PGProvider):
            get_pool = DBAPIProvider.get_pool           # -> pony.orm.dbapiprovider.Pool(dbapi_module, ...)
        db.bind(BasePoolProvider, path)
    elif pool == 'oracle':
        db.bind('oracle', user='vf', password='vf', dsn=path)
    else: raise AssertionError(pool)

SEQ = None
def _seq():
    """position of a session in the one global order: the processes of a history take turns (pipes), the
    counter lives in an anonymous shared mapping created before the first fork"""
    n = struct.unpack('q', SEQ[:8])[0] + 1
    SEQ[:8] = struct.pack('q', n)
    return n

def read_session(db, i, who, steps):
    from pony import orm
    step = dict(actor=who, kind='read', db=i)
    try:
        with orm.db_session:
            step['rows'] = sorted(db.select("v from t"))
        step['ok'] = True
    except Exception as e:
        step.update(ok=False, error='%s: %s' % (type(e).__name__, str(e)[:200]), exc=type(e).__name__)
    step['seq'] = _seq()
    steps.append(step)

def write_session(db, i, who, tag, steps, alarm=False):
    from pony import orm
    step = dict(actor=who, kind='write', tag=tag, db=i)
    def body(tag=tag):
        with orm.db_session:
            db.execute("insert into t (v) values ($tag)")
    try:
        if alarm:
            def proof(stack):      # waiting for a provider lock that no thread of this process can release
                return any(':acquire_lock:' in f for f in stack[:4]) and any(provider_locks(db).values()) \
                       and threading.active_count() == 1
            with Alarm(proof): body()
        else: body()
        step['ok'] = True
    except Blocked as b:
        step.update(ok=False, blocked=True, stack=json.loads(str(b)))
        step['locks'] = provider_locks(db)
        step['threads_in_process'] = threading.active_count()
    except Exception as e:
        step.update(ok=False, error='%s: %s' % (type(e).__name__, str(e)[:200]), exc=type(e).__name__)
    step['seq'] = _seq()
    steps.append(step)

def run_ops(dbs, order, ops, who, tag, steps, alarm=True):
    """every session of `ops` on every database, databases in `order`. After a blocked write the process
    writes no more (the lock state cannot change any more: it would only wait again)"""
    for op in ops:
        for i in order:
            if op == 'r': read_session(dbs[i], i, who, steps)
            elif not any(s.get('blocked') for s in steps): write_session(dbs[i], i, who, tag, steps, alarm=alarm)

def _send(fd, b=b'x'):
    os.write(fd, b)
def _wait(fd, timeout=TOKEN_TIMEOUT):
    r, _, _ = select.select([fd], [], [], timeout)
    if not r: raise core.HarnessError('C36: token did not arrive within %ds' % timeout)
    if not os.read(fd, 1): raise core.HarnessError('C36: peer closed the pipe')
def _read_all(fd, timeout):
    out, end = [], time.time() + timeout
    while True:
        r, _, _ = select.select([fd], [], [], max(0.0, end - time.time()))
        if not r: return None
        chunk = os.read(fd, 65536)
        if not chunk: return b''.join(out)
        out.append(chunk)
def _write_all(fd, data):
    while data:
        n = os.write(fd, data)
        data = data[n:]

def pool_state():
    """how many foreign connections / pools the pid check has set aside in this process"""
    from pony.orm import dbapiprovider
    n = len(dbapiprovider.Pool.forked_connections)
    mod = sys.modules.get('pony.orm.dbproviders.oracle')
    if mod is not None: n += len(mod.OraPool.forked_pools)
    return n

def bind_all(dbs, case, paths):
    for db, path in zip(dbs, paths):
        if db.provider is None: bind(db, case['pool'], path)

def descendant(dbs, case, paths, level, fds):
    """body of a forked process (child, grandchild, ...); never returns"""
    code = 0
    who = WHO[level]
    try:
        del LOG[:]
        steps = []
        rep = dict(pid=os.getpid(), ppid=os.getppid(), who=who, level=level, steps=steps)
        go_r, tok_w, tok_r, rep_w = fds
        if go_r is not None: _wait(go_r)
        bind_all(dbs, case, paths)
        order, pre = use_order(case, level), pre_ops(case, level)
        run_ops(dbs, order, pre, who, who + '1', steps)
        if tok_w is not None:
            _send(tok_w); _wait(tok_r)
            if pre: run_ops(dbs, order, 'r', who, None, steps)
        blocked = any(s.get('blocked') for s in steps)
        if level < case['depth'] and not blocked:
            r, w = os.pipe()
            pid = os.fork()
            if pid == 0:
                os.close(r)
                descendant(dbs, case, paths, level + 1, (None, None, None, w))
            os.close(w)
            data = _read_all(r, TOKEN_TIMEOUT)
            try: os.kill(pid, signal.SIGKILL)
            except OSError: pass
            os.waitpid(pid, 0)
            rep['child'] = json.loads(data.decode()) if data else dict(harness_error='%s did not report' % NAMES[WHO[level + 1]])
            run_ops(dbs, order, post_ops(pre), who, who + '2', steps)
        elif level < case['depth']:
            rep['descendant_skipped'] = 'write blocked'
        rep['log'] = list(LOG)
        rep['set_aside'] = pool_state()
    except BaseException:
        rep = dict(who=who, harness_error=traceback.format_exc()[-1500:])
    try: _write_all(fds[3], json.dumps(rep).encode())
    except BaseException: code = 3
    os._exit(code)

def history(case, path):
    """runs in process P; returns the report of P (with C's report inside)"""
    from pony import orm
    import gc; gc.disable()
    global SEQ
    SEQ = mmap.mmap(-1, 8)                       # anonymous + shared: one counter for the whole process tree
    paths = [path, path + '.b'][:case['dbs']]
    for f in paths:
        raw = sqlite3.connect(f)
        raw.execute('create table t (id integer primary key, v text)')
        raw.execute("insert into t (v) values ('init')")
        raw.commit(); raw.close()
    fake.install(path, paths)
    del LOG[:]
    dbapi.ENV.reset(handler=_logger)
    dbs = [orm.Database() for f in paths]
    everywhere = use_order(case, 0)
    point, pool = case['point'], case['pool']
    rep = dict(pid=os.getpid(), who='p', steps=[], prefork=[])
    holder_kind = {'other-thread-read-session': 'read', 'other-thread-write-transaction': 'write'}.get(point)
    holding, finish, holder_done = threading.Event(), threading.Event(), threading.Event()
    holder_state = {}
    def holder_body():
        try:
            with orm.db_session:
                for db in dbs:                   # one session of the other thread over all databases
                    if holder_kind == 'write':
                        tag = 'h'
                        db.execute("insert into t (v) values ($tag)")
                    else: db.select("v from t")
                holder_state['in_session'] = True
                holding.set()
                if not finish.wait(TOKEN_TIMEOUT): raise core.HarnessError('holder was never told to finish')
                if case['holder_end'] == 'rollback': orm.rollback()
            holder_state['ended'] = case['holder_end']
        except BaseException as e:
            holder_state['error'] = '%s: %s' % (type(e).__name__, e)
        finally:
            holding.set(); holder_done.set()
    def forker_body():
        try:
            if point in ('idle-after-session', 'after-disconnect'):
                run_ops(dbs, everywhere, 'rw', 'p', 'p0', rep['prefork'], alarm=False)
                if point == 'after-disconnect':
                    for db in dbs: db.disconnect()
            if holder_kind:
                if not holding.wait(TOKEN_TIMEOUT) or 'error' in holder_state:
                    raise core.HarnessError('holder thread failed: %r' % holder_state)
            fork_and_continue()
        except BaseException:
            rep['harness_error'] = traceback.format_exc()[-1500:]
            finish.set()
    def fork_and_continue():
        go_r, go_w = os.pipe(); c2p_r, c2p_w = os.pipe(); p2c_r, p2c_w = os.pipe(); rep_r, rep_w = os.pipe()
        child_first = case['order'] == 'child-first'
        rep['log_before_fork'] = len(LOG)
        rep['threads_at_fork'] = threading.active_count()
        rep['transaction_lock_held_at_fork'] = any(db.provider.transaction_lock.locked() for db in dbs if db.provider is not None
                                                   and hasattr(getattr(db.provider, 'transaction_lock', None), 'locked'))
        forked = threading.Event()
        if holder_kind:
            # a tree whose fork() waits for the other thread's transaction (an at-fork handler taking the
            # provider lock) cannot reach this fork point: let the other thread finish, record it
            def watchdog():
                if not forked.wait(FORK_GRACE):
                    rep['fork_waited_for_other_thread'] = True
                    finish.set()
            threading.Thread(target=watchdog, daemon=True).start()
        pid = os.fork()
        if pid == 0:
            for fd in (go_w, c2p_r, p2c_w, rep_r): os.close(fd)
            descendant(dbs, case, paths, 1, (go_r, c2p_w if child_first else None, p2c_r if child_first else None, rep_w))
        for fd in (go_r, c2p_w, p2c_r, rep_w): os.close(fd)
        forked.set()
        rep['child_pid'] = pid
        try:
            if holder_kind:                      # the other thread ends its session right after the fork
                finish.set()
                if not holder_done.wait(TOKEN_TIMEOUT): raise core.HarnessError('holder thread did not finish')
                rep['holder'] = dict(holder_state)
            bind_all(dbs, case, paths)
            if child_first:
                _send(go_w); _wait(c2p_r)
            run_ops(dbs, everywhere, 'rw', 'p', 'p1', rep['steps'], alarm=False)
            if child_first: _send(p2c_w)
            else: _send(go_w)
            data = _read_all(rep_r, TOKEN_TIMEOUT)
            rep['child'] = json.loads(data.decode()) if data else dict(harness_error='child did not report (killed)')
            run_ops(dbs, everywhere, 'r', 'p', None, rep['steps'])
        finally:
            try: os.kill(pid, signal.SIGKILL)
            except OSError: pass
            try: os.waitpid(pid, 0)
            except OSError: pass
    if point != 'before-bind': bind_all(dbs, case, paths)
    if case['forker'] == 'main':
        if holder_kind: threading.Thread(target=holder_body, daemon=True).start()
        forker_body()
    else:
        t = threading.Thread(target=forker_body, daemon=True)
        t.start()
        if holder_kind: holder_body()
        t.join(CASE_TIMEOUT)
        if t.is_alive(): rep['harness_error'] = 'forking thread did not finish'
    rep['log'] = list(LOG)
    return rep

# =================================================================================================
# in the pool worker: run one history in a process of its own, judge the reports
# =================================================================================================
def run_case(case):
    d = dbapi.scratch_dir()
    run_case.n = getattr(run_case, 'n', 0) + 1
    path = os.path.join(d, 'c36-%d-%d.sqlite' % (os.getpid(), run_case.n))
    for suffix in ('', '-journal', '.b', '.b-journal'):
        if os.path.exists(path + suffix): os.unlink(path + suffix)
    r, w = os.pipe()
    sys.stdout.flush(); sys.stderr.flush()
    pid = os.fork()
    if pid == 0:
        code = 0
        try:
            os.close(r)
            os.setpgrp()
            try: rep = history(case, path)
            except BaseException: rep = dict(harness_error=traceback.format_exc()[-1500:])
            _write_all(w, json.dumps(rep).encode())
        except BaseException: code = 3
        os._exit(code)
    os.close(w)
    data = _read_all(r, CASE_TIMEOUT)
    os.close(r)
    try: os.killpg(pid, signal.SIGKILL)          # P, and any C / G that may have been left behind
    except OSError: pass
    os.waitpid(pid, 0)
    for suffix in ('', '-journal', '.b', '.b-journal'):
        if os.path.exists(path + suffix): os.unlink(path + suffix)
    if not data: return dict(harness_error='history process did not report within %ds' % CASE_TIMEOUT)
    return json.loads(data.decode())

def descendants(rep):
    """[(level, report)] of the forked processes, outermost first"""
    out, r = [], rep.get('child')
    while r is not None:
        out.append((len(out) + 1, r))
        r = r.get('child')
    return out

def global_order(case, rep):
    """all session steps of all processes in the order the pipes enforced (shared counter)"""
    seq = list(rep.get('steps', []))
    for level, r in descendants(rep): seq.extend(r.get('steps', []))
    seq.sort(key=lambda s: s['seq'])
    return seq

def judge(case, rep):
    """-> (list of (signature, message), facts for counters)"""
    out, facts = [], dict(steps=0, child_driver_calls=0, grandchild_driver_calls=0, set_aside=0, reads=0, writes_ok=0,
                          last_set_aside=0, processes=1)
    pool, point = case['pool'], case['point']
    def harness(where, text): raise core.HarnessError('C36 %s %s: %s' % (case_name(case), where, text))
    if 'harness_error' in rep: harness('P', rep['harness_error'])
    if rep.get('child') is None: harness('P', 'no child report')
    tree = descendants(rep)
    for level, r in tree:
        if 'harness_error' in r: harness(WHO.get(level, '?').upper(), r['harness_error'])
    if len(tree) != case['depth'] and not any(r.get('descendant_skipped') for level, r in tree):
        harness('P', '%d forked processes reported, %d expected' % (len(tree), case['depth']))
    for s in rep['prefork']:
        if not s['ok']: harness('P', 'pre-fork session failed: %r' % s)
    if rep.get('holder', {}).get('error'): harness('P', 'holder thread: %s' % rep['holder']['error'])
    # (1) no call on a connection / session pool created by another process
    for level, r in tree:
        who = NAMES[WHO[level]]
        foreign = [e for e in r['log'] if e[2] is not None and e[2] != r['pid']]
        facts['child_driver_calls' if level == 1 else 'grandchild_driver_calls'] += len(r['log'])
        facts['set_aside'] += r.get('set_aside', 0)
        facts['last_set_aside'] = r.get('set_aside', 0)
        facts['processes'] += 1
        if foreign:
            kinds = sorted(set(e[3] for e in foreign))
            owner = 'parent' if foreign[0][2] == r['ppid'] else 'ancestor'
            out.append(('foreign-connection-used|%s|%s|%s' % (pool, who, ','.join(kinds)),
                        '%s (pid %d) issued %d driver calls %r on a connection created by its %s (pid %d) after fork point %s (history %s)'
                        % (who, r['pid'], len(foreign), kinds, owner, foreign[0][2], point, case_name(case))))
    if any(e[2] is not None and e[2] != rep['pid'] for e in rep['log']):
        harness('P', 'the first process used a connection it did not create')
    # (2) (3) (4) sessions in pipe order, one set of committed rows per database
    committed = [set(['init']) for i in range(case['dbs'])]
    for s in rep['prefork']:
        if s.get('tag') == 'p0' and s['ok']: committed[s['db']].add('p0')
    if point == 'other-thread-write-transaction' and rep.get('holder', {}).get('ended') == 'commit':
        for c in committed: c.add('h')
    for s in global_order(case, rep):
        facts['steps'] += 1
        who = NAMES[s['actor']]
        if s.get('blocked'):
            inner = [f.split(':')[1] for f in s['stack'][:6]]
            lock = 'provider-lock' if 'acquire_lock' in inner else 'elsewhere'
            out.append(('write-session-blocked|%s|%s|%s' % (pool, point, lock),
                        'first write session of the %s never got past %s (locks inherited in state %r, threads in process %d) after fork point %s'
                        % (who, s['stack'][0], s.get('locks'), s.get('threads_in_process', -1), point)))
            continue
        if not s['ok']:
            out.append(('session-failed|%s|%s|%s|%s' % (pool, who, s['kind'], s.get('exc')),
                        '%s session of the %s failed after fork point %s: %s (history %s)' % (s['kind'], who, point, s.get('error'), case_name(case))))
            continue
        if s['kind'] == 'write':
            committed[s['db']].add(s['tag']); facts['writes_ok'] += 1
        else:
            facts['reads'] += 1
            want = committed[s['db']]
            if sorted(s['rows']) != sorted(want):
                missing, extra = sorted(want - set(s['rows'])), sorted(set(s['rows']) - want)
                out.append(('rows-differ|%s|%s|%s' % (pool, who, 'missing' if missing else 'extra'),
                            'read session of the %s on database %d after fork point %s sees %r, committed so far %r (history %s)'
                            % (who, s['db'], point, sorted(s['rows']), sorted(want), case_name(case))))
    return out, facts

def worker(case):
    sub = core.Sub()
    rep = run_case(case)
    found, facts = judge(case, rep)
    sub.count('histories')
    sub.count('histories_' + case['pool'])
    for k, v in facts.items(): sub.count(k, v)
    if facts['child_driver_calls']: sub.count('children_that_issued_driver_calls')
    if facts['grandchild_driver_calls']: sub.count('grandchildren_that_issued_driver_calls')
    if facts['set_aside']: sub.count('histories_where_the_pid_check_set_a_connection_aside')
    sub.count('processes', facts['processes'])
    pooled = case['point'] not in ('before-bind', 'after-disconnect')
    if case['depth'] >= 2 and case['mid'] == 'nothing':
        sub.count('histories_idle_intermediate')
        if pooled and facts['last_set_aside']: sub.count('idle_intermediate_where_the_last_process_set_a_connection_aside')
    if case['dbs'] == 2:
        sub.count('histories_two_databases')
        if pooled and rep['child'].get('set_aside', 0) >= 2: sub.count('two_databases_where_the_child_set_both_connections_aside')
    sub.count('histories_depth_%d' % case['depth'])
    if rep.get('transaction_lock_held_at_fork'): sub.count('forks_while_transaction_lock_held')
    if rep.get('fork_waited_for_other_thread'): sub.count('forks_that_waited_for_the_other_thread')
    outcome = json.dumps([[s['actor'], s['kind'], s['db'], s.get('ok'), s.get('blocked', False), s.get('rows')]
                          for s in global_order(case, rep)])
    for sig, msg in found:
        sub.violation(sig, dict(case=case, signature=sig), msg)
    if (case['depth'] >= 2 or case['dbs'] == 2) and case['child_ops'] == 'rw' and case['order'] == 'child-first' and case['forker'] == 'main':
        sub.sample(dict(history=case_name(case), steps=[[s['actor'], s['kind'], s['db'], 'ok' if s.get('ok') else ('BLOCKED' if s.get('blocked') else s.get('error')),
                                                          s.get('rows')] for s in global_order(case, rep)],
                        child_driver_calls=facts['child_driver_calls']), limit=2)
    return dict(sub=sub.dump(), outcome=outcome, steps=facts['steps'])

def run(ctx):
    from vf import stubs
    import pony.orm                                  # everything is imported before the first fork
    stubs.install_all()
    import pony.orm.dbproviders.sqlite, pony.orm.dbproviders.postgres, pony.orm.dbproviders.oracle   # noqa
    from pony.orm import dbapiprovider
    for cls, attr in ((dbapiprovider.Pool, 'connect'), (pony.orm.dbproviders.sqlite.SQLitePool, '_connect'),
                      (pony.orm.dbproviders.postgres.PGPool, '_connect'), (pony.orm.dbproviders.oracle.OraPool, 'connect')):
        if not hasattr(cls, attr): raise core.HarnessError('C36: %s.%s is gone' % (cls.__name__, attr))
    import gc
    gc.collect(); gc.freeze()                         # forked processes are short-lived: keep copy-on-write faults down
    items = ctx.shuffled(cases(ctx.tier))
    # blocked histories wait for two alarms: start them first
    items.sort(key=lambda c: not (c['pool'] == 'sqlite' and c['point'] == 'other-thread-write-transaction'))
    results = ctx.pmap(worker, items)
    outcomes, steps = set(), 0
    for r in results:
        core.absorb(ctx, r['sub'])
        outcomes.add(r['outcome']); steps += r['steps']
    n = ctx.counters.get('histories', 0)
    ctx.cov['distinct_outcomes'] = len(outcomes)
    ctx.cov['bounds'] = ('%d histories = pools %r x fork points %r x forking thread x how the other thread ends x order of '
                         'sessions x first sessions of the child x fork depth 1..%d x what an intermediate process did before it '
                         'forked again %r x bound Database objects 1..2 (descendants use them in both orders); the %s tier '
                         'takes the sub-product listed in cases()' % (n, POOLS, POINTS, 2 if ctx.quick else 3, MIDS, ctx.tier))
    ctx.guard('histories', n, 100)
    ctx.guard('child processes that really issued driver calls', ctx.counters.get('children_that_issued_driver_calls', 0), 100)
    ctx.guard('grandchild processes that really issued driver calls', ctx.counters.get('grandchildren_that_issued_driver_calls', 0), 20)
    ctx.guard('histories in which the pid check set a parent connection aside', ctx.counters.get('histories_where_the_pid_check_set_a_connection_aside', 0), 50)
    ctx.guard('forks taken while another thread held the SQLite transaction lock (or that waited for it)',
              ctx.counters.get('forks_while_transaction_lock_held', 0) + ctx.counters.get('forks_that_waited_for_the_other_thread', 0), 4)
    ctx.guard('histories whose intermediate process opened no session before it forked again (double fork)',
              ctx.counters.get('histories_idle_intermediate', 0), 20)
    ctx.guard('... in which the last process set an inherited connection aside',
              ctx.counters.get('idle_intermediate_where_the_last_process_set_a_connection_aside', 0), 12)
    ctx.guard('histories with two bound Database objects', ctx.counters.get('histories_two_databases', 0), 30)
    ctx.guard('... in which the child set the inherited connections of both aside',
              ctx.counters.get('two_databases_where_the_child_set_both_connections_aside', 0), 20)
    ctx.guard('read sessions compared', ctx.counters.get('reads', 0), 400)
    ctx.guard('distinct outcomes', len(outcomes), 4)
    ctx.assume('a fork from inside an open db_session of the forking thread is excluded (the child would still be inside the parent\'s session)')
    ctx.assume('pg / base / oracle: the driver is a recording fake on a sqlite3 file (vf/props/_c36_fake.py); Pool, PGPool and OraPool run unmodified')
    ctx.assume('"blocked" = same frames at two SIGALRMs %d s apart while waiting for a locked provider lock in a single-threaded process, '
               'or no progress for four alarms; other waits use timeouts of %d s' % (ALARM_S, TOKEN_TIMEOUT))
    transitions = steps + n + (ctx.counters.get('processes', 0) - n)          # + bind/pre-fork and one edge per fork
    return dict(states=transitions + 1, transitions=transitions, traces_validated_against_impl=n)

def replay(ctx, case):
    from vf import stubs
    import pony.orm
    stubs.install_all()
    c = dict(dict(mid='sessions', dbs=1, use='a'), **case['case'])      # replays recorded before these dimensions existed
    rep = run_case(c)
    found, facts = judge(c, rep)
    print('history %s' % case_name(c))
    for s in global_order(c, rep):
        print('  %-2s db%d %-5s %s %s' % (s['actor'], s['db'], s['kind'], 'ok' if s.get('ok') else ('BLOCKED at ' + s['stack'][0] if s.get('blocked') else s.get('error')),
                                 s.get('rows') or s.get('tag') or ''))
    for sig, msg in found: print(' %s: %s' % (sig, msg))
    return not found
