"""C34 Permission checks follow the declared access rules.

Bounded-exhaustive enumeration (nothing sampled) of rule sets over a small model

    A(id, name, secret[hidden], b -> B)      A2(A)(extra)       B(id, title, a_set -> Set(A))

rule = perm(<permissions>, groups, roles, labels) inside db.set_perms_for(<A | A2 | B | A,B>)
       [.exclude(<A | A2 | B>)] [.exclude(<attributes on either side of the relationship>)]

  * every single rule of the full feature product, for each of view / edit / create / delete and three
    multi-permission forms;
  * every unordered pair of rules (quick: reduced feature product) and every unordered triple of a
    reduced product, each evaluated in EVERY order (declaration order = iteration order of the rule
    set: the rule sets stored on the entities are replaced by ordered containers, so that the
    answer of the real `set`, which depends on object addresses, is covered deterministically);
  * users with every subset of {g1, g2} plus the anonymous user; objects of A, A2, B with every
    role / label assignment; every entity, attribute (pk, plain, hidden, subclass, both ends of the
    relationship) and object as target.

  * family 'getters' (registration matrix): every registration of ONE user_groups_getter (user_cls in
    None / U / subclass US / unrelated UO), ONE user_roles_getter (user_cls x obj_cls in None / A /
    subclass A2 / other entity B), ONE obj_labels_getter (obj_cls), each in three return forms (list,
    single str or None, frozenset) with the other two kinds registered for everything; two getters of
    one kind handing out different names (quick: roles unordered pairs, groups/labels ordered pairs;
    thorough: all ordered pairs plus the full product groups x roles x labels of single getters).
    For each configuration: users anonymous / U / US / UO x every object of A, A2, B and every
    entity x view rules on A, A2, B, A+B that need nothing, one handed-out name, or all of them.
    Oracle G: get_user_groups / get_user_roles / get_object_labels return exactly the names of the
    registrations whose classes match (isinstance; None = any); oracle D: has_perm == reference
    decision computed from those names. A getter discrepancy is shrunk to the registrations needed.

Oracles
  D   reference decision (documented reading, DESIGN C34). For the two ends of a relationship the
      reading of "reverse side" is ambiguous: with F = granted by a rule of the attribute's own
      entity and R = reverse attribute granted by a rule of the reverse entity, F and R demands
      True, neither demands False, anything else accepts both answers (counted, never an alarm).
  L1  the answer does not depend on the order of the rules
  L2  adding a rule never revokes
  L3  repeated checks agree (same session, other query order)   [L3-L5: single rules, mixed view/edit
      pairs and pairs of the small product; the large pair/triple products are judged by D, L1, L2]
  L4  Database.to_json never emits an object / schema entry for which can_view is false
  L5  can_edit/can_create/can_delete == has_perm(...); can_view in {view, view or edit}
"""
import os, sys, itertools, json
from collections import defaultdict
from vf import core

LEVEL = 'exploration'

PERMS = ('view', 'edit', 'create', 'delete')
ENTS = dict(A=('A', 'A2'), A2=('A2',), B=('B',), AB=('A', 'A2', 'B'))      # set_perms_for(...) incl. subclasses
EXCL = {'': (), 'A': ('A', 'A2'), 'A2': ('A2',), 'B': ('B',)}              # exclude(entity) incl. subclasses
GROUPS = ((), ('g1',), ('g2',), ('g1', 'g2'))
USERS = (None, (), ('g1',), ('g2',), ('g1', 'g2'))                            # None = anonymous
# attribute -> (declaring entity, reverse attribute or None, kind)
ATTRS = {
    'A.id': ('A', None, 'pk'), 'A.name': ('A', None, 'plain'), 'A.secret': ('A', None, 'hidden'),
    'A.b': ('A', 'B.a_set', 'rel'), 'A2.extra': ('A2', None, 'plain-of-subclass'),
    'B.id': ('B', None, 'pk'), 'B.title': ('B', None, 'plain'), 'B.a_set': ('B', 'A.b', 'rel'),
}
OBJECTS = [('A', i) for i in (1, 2, 3, 4)] + [('A2', i) for i in (5, 6, 7, 8)] + [('B', 1), ('B', 2)]

def obj_roles(ent, pk):      # roles of every (non-anonymous) user on the object
    return ('r1',) if ent != 'B' and pk % 4 in (1, 2) else ()
def obj_labels(ent, pk):
    return ('l1',) if ent != 'B' and pk % 4 in (1, 3) else ()

# a rule is a tuple (perms, target, groups, roles, labels, entity exclusion, attribute exclusions)
def mk(perms=('view',), target='A', groups=(), roles=(), labels=(), eexcl='', aexcl=()):
    return (tuple(perms), target, tuple(groups), tuple(roles), tuple(labels), eexcl, tuple(aexcl))

def rule_text(r):
    perms, target, groups, roles, labels, eexcl, aexcl = r
    s = '%s:%s' % ({'AB': 'A+B'}.get(target, target), '+'.join(perms))
    feats = []
    if groups: feats.append('groups=' + '+'.join(groups))
    if roles: feats.append('roles=' + '+'.join(roles))
    if labels: feats.append('labels=' + '+'.join(labels))
    if feats: s += '[' + ','.join(feats) + ']'
    if eexcl: s += '.exclude(%s)' % eexcl
    if aexcl: s += '.exclude(%s)' % ','.join(aexcl)
    return s

# ---------------------------------------------------------------------------------------------
# reference decision

def ref_decide(rules, user, perm, target):
    """-> True / False / None (None: both answers accepted)"""
    ug = set(user or ()) | {'anybody'}
    def applicable(ent):
        return [r for r in rules if perm in r[0] and ent in ENTS[r[1]]]
    def base(r, ent):
        return set(r[2]) <= ug and ent not in EXCL[r[5]]
    kind = target[0]
    if kind == 'entity':
        ent = target[1]
        return any(base(r, ent) for r in applicable(ent))
    if kind == 'attr':
        name = target[1]
        ent, reverse, akind = ATTRS[name]
        if akind == 'hidden': return False
        F = any(base(r, ent) and name not in r[6] for r in applicable(ent))
        if reverse is None: return F
        rent = ATTRS[reverse][0]
        R = any(base(r, rent) and reverse not in r[6] for r in applicable(rent))
        if F and R: return True
        if not F and not R: return False
        return None
    if kind == 'obj':
        ent, pk = target[1], target[2]
        roles = set(obj_roles(ent, pk)) if user is not None else set()
        labels = set(obj_labels(ent, pk))
        return any(base(r, ent) and set(r[3]) <= roles and set(r[4]) <= labels for r in applicable(ent))
    raise core.HarnessError('target %r' % (target,))

def target_kind(target):
    if target[0] == 'entity': return 'entity'
    if target[0] == 'attr': return 'attr(%s)' % ATTRS[target[1]][2].replace('plain-of-subclass', 'plain')
    return 'object'

def classify(rules, user, perm, target):
    """each rule's role for one query, in the reference's terms (this is what the signature keeps of a rule)"""
    ug = set(user or ()) | {'anybody'}
    if target[0] == 'entity': ent, rent, name, rname = target[1], None, None, None
    elif target[0] == 'attr':
        name = target[1]; ent, rname, _ = ATTRS[name]
        rent = ATTRS[rname][0] if rname else None
    else: ent, rent, name, rname = target[1], None, None, None
    out = []
    for r in rules:
        perms, tgt, groups, roles, labels, eexcl, aexcl = r
        def why(e, a):
            w = []
            if not set(groups) <= ug: w.append('groups')
            if e in EXCL[eexcl]: w.append('excluded-entity' if eexcl == e else 'excluded-via-base-entity')
            if a is not None and a in aexcl: w.append('excluded-attr')
            if target[0] == 'obj':
                if not set(roles) <= (set(obj_roles(ent, target[2])) if user is not None else set()): w.append('roles')
                if not set(labels) <= set(obj_labels(ent, target[2])): w.append('labels')
            return w
        tags = []
        if perm in perms and ent in ENTS[tgt]:
            w = why(ent, name)
            if rent is not None: tags.append('own:no' if w else 'own:grants')      # relationship end: reasons not kept
            else: tags.append('own:no(%s)' % ','.join(w) if w else 'own:grants')
        if rent is not None and perm in perms and rent in ENTS[tgt]:
            tags.append('rev:no' if why(rent, rname) else 'rev:grants')
        if not tags: tags.append('unrelated' if perm in perms else 'other-permission')
        out.append('&'.join(tags))
    return sorted(out)

TARGETS = [('entity', e) for e in ('A', 'A2', 'B')] + [('attr', a) for a in sorted(ATTRS)] + \
          [('obj', e, pk) for e, pk in OBJECTS]

_TPOS = {t: i for i, t in enumerate(TARGETS)}

# ---------------------------------------------------------------------------------------------
# the real thing

class _Env(object): pass
_ENV = None

class OrderedRules(list):
    """Replaces the `set` of AccessRule objects stored in entity._access_rules_[perm]: same
    protocol as far as has_perm() uses it (truth value, iteration, add), but with a chosen
    iteration order."""
    iterations = 0
    def add(self, x):
        if x not in self: self.append(x)
    def __iter__(self):
        OrderedRules.iterations += 1
        return list.__iter__(self)

def env():
    global _ENV
    if _ENV is not None and _ENV.pid == os.getpid(): return _ENV
    from pony import orm
    from pony.orm import core as pc
    E = _Env()
    E.pid, E.orm, E.pc = os.getpid(), orm, pc
    db = orm.Database()
    class A(db.Entity):
        id = orm.PrimaryKey(int)
        name = orm.Required(str)
        secret = orm.Optional(str, hidden=True)
        b = orm.Optional('B')
    class A2(A):
        extra = orm.Optional(str)
    class B(db.Entity):
        id = orm.PrimaryKey(int)
        title = orm.Optional(str)
        a_set = orm.Set('A')
    db.bind('sqlite', ':memory:')
    db.generate_mapping(create_tables=True)
    E.db = db
    E.ent = dict(A=A, A2=A2, B=B)
    E.attr = {'A.id': A.id, 'A.name': A.name, 'A.secret': A.secret, 'A.b': A.b, 'A2.extra': A2.extra,
              'B.id': B.id, 'B.title': B.title, 'B.a_set': B.a_set}
    class User(object):
        def __init__(self, groups): self.groups = groups
        def __repr__(self): return 'User(%s)' % ','.join(self.groups)
    E.users = [None if g is None else User(g) for g in USERS]
    class U(object):
        def __repr__(self): return type(self).__name__ + '()'
    class US(U): pass
    class UO(object):
        def __repr__(self): return 'UO()'
    E.gcls = dict(U=U, US=US, UO=UO)
    E.gusers = [None if c is None else E.gcls[c]() for c in GUSERS]
    @pc.user_groups_getter(User)
    def _groups(user): return user.groups
    @pc.user_roles_getter(User, A)
    def _roles(user, obj): return obj_roles('A', obj.id)
    @pc.obj_labels_getter(A)
    def _labels(obj): return obj_labels('A', obj.id)
    with orm.db_session:
        b1, b2 = B(id=1, title='t1'), B(id=2, title='t2')
        for e, pk in OBJECTS:
            if e != 'B': E.ent[e](id=pk, name='n%d' % pk, secret='s')
        A[1].b = b1; A[5].b = b1; A[3].b = b2
    E.static = {}
    for t in TARGETS:
        if t[0] == 'entity': E.static[t] = E.ent[t[1]]
        elif t[0] == 'attr': E.static[t] = E.attr[t[1]]
    _ENV = E
    return E

def declare(E, rules):
    """declare `rules` in this order; iteration order of every stored rule set = this order"""
    pc = E.pc
    for ent in E.ent.values():
        ent._access_rules_.clear()
    made = []
    for (perms, target, groups, roles, labels, eexcl, aexcl) in rules:
        ents = [E.ent[n] for n in ({'AB': ('A', 'B')}.get(target) or (target,))]
        with E.db.set_perms_for(*ents):
            rule = pc.perm(' '.join(perms), groups=list(groups), roles=list(roles), labels=list(labels))
        if eexcl: rule.exclude(E.ent[eexcl])
        if aexcl: rule.exclude(*[E.attr[a] for a in aexcl])
        made.append(rule)
    pos = {id(r): i for i, r in enumerate(made)}
    for ent in E.ent.values():
        for p in list(ent._access_rules_):
            ent._access_rules_[p] = OrderedRules(sorted(ent._access_rules_[p], key=lambda r: pos[id(r)]))

def _call(f, *a):
    try: return bool(f(*a))
    except Exception as e: return 'EXC:' + type(e).__name__

def perms_to_ask(rules, full):
    """permissions some rule mentions, plus edit (can_view looks at it) - a permission without any
    rule is answered False before any rule logic runs; that is checked on the single rules"""
    used = set(p for r in rules for p in r[0])
    if len(rules) <= 1: used = set(PERMS)
    if full: used.add('edit')
    return tuple(p for p in PERMS if p in used)

def evaluate(E, rules, with_json=False):
    """-> (answers {(user index, perm, target): bool|'EXC:..'}, list of law violations found while evaluating)"""
    pc, orm = E.pc, E.orm
    declare(E, rules)
    ans, laws = {}, []
    PERMS = perms_to_ask(rules, with_json)
    with orm.db_session:
        real = dict(E.static)
        for obj in E.ent['A'].select()[:]: real[('obj', type(obj).__name__, obj.id)] = obj
        for obj in E.ent['B'].select()[:]: real[('obj', 'B', obj.id)] = obj
        if len(real) != len(TARGETS): raise core.HarnessError('fixture objects missing')
        for ui, user in enumerate(E.users):
            for p in PERMS:
                for t in TARGETS:
                    ans[(ui, p, t)] = _call(pc.has_perm, user, p, real[t])
        # L3: again, other query order, same session
        for ui in (reversed(range(len(E.users))) if with_json else ()):
            user = E.users[ui]
            for t in reversed(TARGETS):
                for p in reversed(PERMS):
                    again = _call(pc.has_perm, user, p, real[t])
                    if again != ans[(ui, p, t)]:
                        laws.append(('L3-repeat', ui, p, t, '%r then %r' % (ans[(ui, p, t)], again)))
        # L5: the can_* front ends
        for ui, user in (enumerate(E.users) if with_json else ()):
            for t in TARGETS:
                x = real[t]
                if 'view' not in PERMS: continue
                v, e = ans[(ui, 'view', t)], ans[(ui, 'edit', t)]
                cv = _call(pc.can_view, user, x)
                if cv not in (v, (v is True or e is True)) and not (isinstance(cv, str) or isinstance(v, str) or isinstance(e, str)):
                    laws.append(('L5-can_view', ui, 'view', t, 'can_view=%r has_perm view=%r edit=%r' % (cv, v, e)))
                for name, p in (('can_edit', 'edit'), ('can_create', 'create'), ('can_delete', 'delete')):
                    if p not in PERMS: continue
                    c = _call(getattr(pc, name), user, x)
                    if c != ans[(ui, p, t)]:
                        laws.append(('L5-' + name, ui, p, t, '%s=%r has_perm=%r' % (name, c, ans[(ui, p, t)])))
        if with_json:
            laws.extend(check_to_json(E, real))
    return ans, laws

JSON_DATA = (
    ('B1+a_set', [('obj', 'B', 1)], ('B.a_set',)),
    ('A1,A3,A5+b', [('obj', 'A', 1), ('obj', 'A', 3), ('obj', 'A2', 5)], ('A.b',)),
    ('A2,A4', [('obj', 'A', 2), ('obj', 'A', 4)], ()),
    ('B2+a_set', [('obj', 'B', 2)], ('B.a_set',)),
)
JSTAT = defaultdict(int)

def check_to_json(E, real):
    pc = E.pc
    out = []
    for ui, user in enumerate(E.users):
        pc.set_current_user(user)
        try:
            for dname, data, include in JSON_DATA:
                for with_schema in ((False, True) if dname == JSON_DATA[0][0] else (False,)):
                    try:
                        js = E.db.to_json([real[t] for t in data], include=[E.attr[a] for a in include],
                                          with_schema=with_schema)
                    except pc.PermissionError:
                        JSTAT['to_json_refused'] += 1; continue
                    except Exception as e:
                        JSTAT['to_json_raised:' + type(e).__name__] += 1; continue
                    JSTAT['to_json_answered'] += 1
                    d = json.loads(js)
                    emitted = []
                    for cls, byid in d['objects'].items():
                        for pk in byid: emitted.append(('obj', cls, int(pk)))
                    for item in d['data']:
                        emitted.append(('obj', item['class'], int(item['pk'])))
                    for t in sorted(set(emitted)):
                        JSTAT['to_json_objects_emitted'] += 1
                        if _call(pc.can_view, user, real[t]) is not True:
                            out.append(('L4-to_json', ui, 'view', t, 'data=%s emitted %s[%d] although can_view is false' % (dname, t[1], t[2])))
                    for ed in d.get('schema', ()):
                        JSTAT['to_json_schema_entities'] += 1
                        et = ('entity', ed['name'])
                        if _call(pc.can_view, user, real[et]) is not True:
                            out.append(('L4-to_json-schema', ui, 'view', et, 'schema lists entity %s although can_view is false' % ed['name']))
                        for ad in ed['newAttrs']:
                            at = ('attr', '%s.%s' % (ed['name'], ad['name']))
                            if at in real and _call(pc.can_view, user, real[at]) is not True:
                                out.append(('L4-to_json-schema', ui, 'view', at, 'schema lists attribute %s although can_view is false' % at[1]))
        finally:
            pc.set_current_user(None)
    return out

# ---------------------------------------------------------------------------------------------
# judging one unordered rule set: all orders, all laws

_SINGLE = {}

def answers_cached(E, rules):
    """set of granted (user, perm, target) keys for short ordered rule tuples (used by L2), memoised per process"""
    key = tuple(rules)
    r = _SINGLE.get(key)
    if r is None:
        r = frozenset(_KEY.setdefault(k, k) for k, v in evaluate(E, key)[0].items() if v is True) if key else frozenset()
        if len(_SINGLE) >= 20000: _SINGLE.clear()
        _SINGLE[key] = r
    return r
_KEY = {}

def find_violations(E, ruleset, with_json=False, stats=None, focus=None):
    """ruleset: tuple of rules (canonical order). -> list of (law, kind, detail dict), deterministic order:
    the first failing query per (law, target kind); with focus=(law, user index, perm, target) only
    violations of that law on exactly that query."""
    out = []
    seen = set()
    def add(law, ui, p, t, text, order):
        kind = target_kind(t)
        if focus is not None and (law, ui, p, tuple(t)) != focus: return
        if (law, kind) in seen: return
        seen.add((law, kind))
        out.append((law, kind, dict(user=USERS[ui], perm=p, target=list(t), order=[rule_text(r) for r in order], what=text)))
    orders = sorted(set(itertools.permutations(ruleset)))
    by_order = {}
    for order in orders:
        ans, laws = evaluate(E, order, with_json)
        by_order[order] = ans
        for (law, ui, p, t, text) in laws: add(law, ui, p, t, text, order)
    first = by_order[orders[0]]
    keys = sorted(first, key=lambda k: (k[0], PERMS.index(k[1]), _TPOS[k[2]]))
    # D: reference decision
    for k in keys:
        ui, p, t = k
        exp = ref_decide(ruleset, USERS[ui], p, t)
        if stats is not None:
            stats['decisions'] += len(orders)
            if exp is None: stats['ambiguous_reverse_side'] += len(orders)
        for order in orders:
            got = by_order[order][k]
            if isinstance(got, str):
                if stats is not None: stats['refused:' + got] += 1
                continue
            if stats is not None: stats['granted' if got else 'denied'] += 1
            if exp is not None and got != exp:
                add('D-granted-but-not-declared' if got else 'D-declared-but-denied', ui, p, t,
                    'has_perm -> %r, the declared rules give %r' % (got, exp), order)
    # L1: order
    for k in keys:
        vals = set(by_order[o][k] for o in orders)
        if len(vals) > 1:
            o1 = [o for o in orders if by_order[o][k] == by_order[orders[0]][k]][0]
            o2 = [o for o in orders if by_order[o][k] != by_order[orders[0]][k]][0]
            add('L1-order', k[0], k[1], k[2], 'order %s -> %r but order %s -> %r'
                % ([rule_text(r) for r in o1], by_order[o1][k], [rule_text(r) for r in o2], by_order[o2][k]), o2)
    # L2: adding a rule never revokes
    if len(ruleset) > 1:
        for order in orders:
            big = by_order[order]
            for i in range(len(order)):
                small = answers_cached(E, order[:i] + order[i + 1:])
                for k in keys:
                    if big[k] is False and k in small:
                        add('L2-adding-a-rule-revokes', k[0], k[1], k[2],
                            'granted with %s, denied after adding %s (order %s)'
                            % ([rule_text(r) for r in order[:i] + order[i + 1:]], rule_text(order[i]),
                               [rule_text(r) for r in order]), order)
    return out

# ---------------------------------------------------------------------------------------------
# shrinking and signatures

def simpler_sets(ruleset, perm):
    rs = list(ruleset)
    if len(rs) > 1:
        for i in range(len(rs)): yield tuple(rs[:i] + rs[i + 1:])
    for i, r in enumerate(rs):
        perms, target, groups, roles, labels, eexcl, aexcl = r
        cands = []
        if len(perms) > 1: cands.append(((perm,) if perm in perms else perms[:1], target, groups, roles, labels, eexcl, aexcl))
        if target == 'AB':
            cands.append((perms, 'A', groups, roles, labels, eexcl, aexcl))
            cands.append((perms, 'B', groups, roles, labels, eexcl, aexcl))
        if eexcl: cands.append((perms, target, groups, roles, labels, '', aexcl))
        for j in range(len(aexcl)): cands.append((perms, target, groups, roles, labels, eexcl, aexcl[:j] + aexcl[j + 1:]))
        for j in range(len(groups)): cands.append((perms, target, groups[:j] + groups[j + 1:], roles, labels, eexcl, aexcl))
        if roles: cands.append((perms, target, groups, (), labels, eexcl, aexcl))
        if labels: cands.append((perms, target, groups, roles, (), eexcl, aexcl))
        for c in cands:
            yield tuple(sorted(rs[:i] + [c] + rs[i + 1:]))

def shrink(E, ruleset, law, kind, perm, with_json, focus, budget=120):
    """greedy simplification of the rule set while the same law still fails on the same query"""
    cur = tuple(sorted(ruleset))
    progress = True
    while progress and budget > 0:
        progress = False
        for cand in simpler_sets(cur, perm):
            budget -= 1
            if budget <= 0: break
            if find_violations(E, cand, with_json, focus=focus):
                cur = cand; progress = True
                break
    return cur

def signature_of(E, ruleset, law, kind, d, with_json):
    perm = d['perm']
    focus = (law, USERS.index(d['user']), perm, tuple(d['target']))
    small = shrink(E, ruleset, law, kind, perm, with_json, focus)
    vs = find_violations(E, small, with_json, focus=focus)
    if not vs: raise core.HarnessError('shrunk rule set does not reproduce %s/%s: %r' % (law, kind, small))
    d = vs[0][2]
    classes = classify(small, d['user'], d['perm'], tuple(d['target']))
    sig = '%s | %s | %s' % (law, kind, ' ; '.join(classes))
    return sig, small, d

_MEMO = {}

def presig(ruleset, law, kind, d):
    return (law, kind, tuple(classify(ruleset, d['user'], d['perm'], tuple(d['target']))))

def judge_set(sub, E, ruleset, with_json, stats):
    vs = find_violations(E, ruleset, with_json, stats)
    sub.count('rule_sets')
    sub.count('rule_sets_of_%d' % len(ruleset))
    for law, kind, d in vs:
        sub.count('raw_disagreements')
        pre = presig(ruleset, law, kind, d)
        memo = _MEMO.setdefault(pre, dict(n=0, sigs={}))
        if memo['n'] >= 2 and len(memo['sigs']) == 1 and not os.environ.get('VF_C34_NOMEMO'):
            sig = next(iter(memo['sigs'])); small, sd = memo['sigs'][sig]
            sub.count('disagreements_attributed_without_shrinking')
        else:
            sig, small, sd = signature_of(E, ruleset, law, kind, d, with_json)
            memo['n'] += 1; memo['sigs'][sig] = (small, sd)
        sub.violation(sig, dict(rules=[list(r) for r in small], law=law, kind=kind, with_json=with_json,
                                detail=sd, original=[list(r) for r in ruleset]),
                      '%s: %s %s for %s: %s' % (law, sd['perm'], '.'.join(map(str, sd['target'][1:])),
                                                'anonymous' if sd['user'] is None else 'user in groups %s' % (list(sd['user']),),
                                                sd['what']))
    return vs

# ---------------------------------------------------------------------------------------------
# the getter registration matrix (family 'getters')
#
# A registration is (kind, user_cls, obj_cls, name, form): kind in groups / roles / labels; user_cls in
# None / U / US (subclass of U) / UO (unrelated class); obj_cls in None / A / A2 (subclass of A) / B;
# the getter hands out exactly one name (so that every name found on a user / object is attributable
# to one registration), as a list, a single string (None when nothing) or a frozenset.
# Groups are handed out unconditionally, roles on objects with an odd pk, labels on pk % 4 in (1, 2).

UCLS = (None, 'U', 'US', 'UO')
OCLS = (None, 'A', 'A2', 'B')
GUSERS = (None, 'U', 'US', 'UO')                   # None = anonymous
FORMS = ('list', 'str', 'frozenset')
U_ISA = dict(U=('U',), US=('US', 'U'), UO=('UO',))
O_ISA = dict(A=('A',), A2=('A2', 'A'), B=('B',))
GTARGETS = [t for t in TARGETS if t[0] != 'attr']

def _role_on(pk): return pk % 2 == 1
def _label_on(pk): return pk % 4 in (1, 2)

def g_expected(config, ucls, ent, pk):
    """names the registrations hand out -> (groups, roles, labels); ent None: no object"""
    groups, roles, labels = {'anybody'}, set(), set()
    for kind, rc, oc, name, form in config:
        u_ok = ucls is not None and (rc is None or rc in U_ISA[ucls])
        o_ok = ent is not None and (oc is None or oc in O_ISA[ent])
        if kind == 'groups':
            if u_ok: groups.add(name)
        elif kind == 'roles':
            if u_ok and o_ok and _role_on(pk): roles.add(name)
        elif o_ok and _label_on(pk): labels.add(name)
    return groups, roles, labels

def g_ref(rule, config, ucls, target):
    perms, tgt, groups, roles, labels, eexcl, aexcl = rule
    ent = target[1]
    if ent not in ENTS[tgt] or ent in EXCL[eexcl]: return False
    g, r, l = g_expected(config, ucls, ent if target[0] == 'obj' else None, target[2] if target[0] == 'obj' else 0)
    if not set(groups) <= g: return False
    if target[0] == 'entity': return True
    return set(roles) <= r and set(labels) <= l

def _rel(rc, actual, isa, anon):
    if rc is None: return 'None'
    if actual is None: return anon
    if rc == actual: return 'same-class'
    if rc in isa[actual]: return 'base-class'
    if actual in isa[rc]: return 'subclass'
    return 'other-class'

def reg_text(reg, ucls, ent):
    kind, rc, oc, name, form = reg
    parts = []
    if kind != 'labels': parts.append('user_cls=' + _rel(rc, ucls, U_ISA, 'given(anonymous user)'))
    if kind != 'groups': parts.append('obj_cls=' + _rel(oc, ent, O_ISA, '-'))
    return '%s_getter(%s)%s' % (kind, ', '.join(parts), '' if form == 'list' else ' returning ' + form)

def g_install(E, config):
    pc = E.pc
    for lst in (pc.usergroup_functions, pc.userrole_functions, pc.objlabel_functions): del lst[:]
    def shaped(name, form, on):
        if form == 'str': return name if on else None
        if form == 'frozenset': return frozenset([name] if on else ())
        return [name] if on else []
    for kind, rc, oc, name, form in config:
        ua = (E.gcls[rc],) if rc else ()
        if kind == 'groups':
            def f(user, name=name, form=form): return shaped(name, form, True)
            pc.user_groups_getter(*ua)(f)
        elif kind == 'roles':
            def f(user, obj, name=name, form=form): return shaped(name, form, _role_on(obj.id))
            if oc: pc.user_roles_getter(E.gcls[rc] if rc else None, E.ent[oc])(f)
            else: pc.user_roles_getter(*ua)(f)
        else:
            def f(obj, name=name, form=form): return shaped(name, form, _label_on(obj.id))
            pc.obj_labels_getter(*((E.ent[oc],) if oc else ()))(f)

def g_objects(E):
    real = {}
    for obj in E.ent['A'].select()[:]: real[('obj', type(obj).__name__, obj.id)] = obj
    for obj in E.ent['B'].select()[:]: real[('obj', 'B', obj.id)] = obj
    for t in GTARGETS:
        if t[0] == 'entity': real[t] = E.ent[t[1]]
    if len(real) != len(GTARGETS): raise core.HarnessError('fixture objects missing')
    return real

def g_direct(E, config, stats=None):
    """get_user_groups / get_user_roles / get_object_labels against the registrations.
    -> list of (kind, ui, target or None, name, 'applied'|'not-applied'), registrations already installed"""
    pc, out = E.pc, []
    byname = dict((reg[3], reg) for reg in config)
    def cmp(kind, ui, t, got, exp):
        if stats is not None: stats['getter_answers'] += 1
        if isinstance(got, str): out.append((kind, ui, t, got, 'raised')); return
        for name in sorted(set(got) ^ set(exp)):
            if name in byname: out.append((kind, ui, t, name, 'applied' if name in got else 'not-applied'))
            else: out.append((kind, ui, t, str(name), 'unregistered-name'))
    def call(f, *a):
        try: return set(f(*a))
        except Exception as e: return 'EXC:' + type(e).__name__
    with E.orm.db_session:
        real = g_objects(E)
        for ui, ucls in enumerate(GUSERS):
            user = E.gusers[ui]
            cmp('groups', ui, None, call(pc.get_user_groups, user), g_expected(config, ucls, None, 0)[0])
            for t in GTARGETS:
                if t[0] != 'obj': continue
                cmp('roles', ui, t, call(pc.get_user_roles, user, real[t]), g_expected(config, ucls, t[1], t[2])[1])
        for t in GTARGETS:
            if t[0] == 'obj':
                cmp('labels', None, t, call(pc.get_object_labels, real[t]), g_expected(config, None, t[1], t[2])[2])
    return out

def g_blame(E, config, d):
    """signature tail of one getter discrepancy, after dropping every registration that is not needed for it"""
    kind, ui, t, name, how = d
    cur = tuple(config)
    progress = True
    while progress and len(cur) > 1:
        progress = False
        for i in range(len(cur)):
            cand = cur[:i] + cur[i + 1:]
            g_install(E, cand)
            if d in g_direct(E, cand):
                cur = cand; progress = True
                break
    for i in range(len(cur)):            # return form: keep it only if the plain list form does not show the same
        if cur[i][4] != 'list':
            cand = cur[:i] + (cur[i][:4] + ('list',),) + cur[i + 1:]
            g_install(E, cand)
            if d in g_direct(E, cand): cur = cand
    g_install(E, config)
    ucls = GUSERS[ui] if ui is not None else None
    ent = t[1] if t is not None else None
    mine = [r for r in cur if r[3] == name]
    others = [r for r in cur if r[3] != name]
    s = '%s %s' % (reg_text(mine[0], ucls, ent) if mine else 'no registration', how)
    if others:
        s += ' with ' + ' + '.join('%s %s' % (reg_text(r, ucls, ent), 'before' if cur.index(r) < cur.index(mine[0]) else 'after')
                                   if mine else reg_text(r, ucls, ent) for r in others)
    return s, cur

def g_rules(config):
    names = dict(groups=[], roles=[], labels=[])
    for reg in config: names[reg[0]].append(reg[3])
    reqs = [((), (), ())]
    for n in names['groups']: reqs.append(((n,), (), ()))
    for n in names['roles']: reqs.append(((), (n,), ()))
    for n in names['labels']: reqs.append(((), (), (n,)))
    reqs.append((tuple(names['groups']), tuple(names['roles']), tuple(names['labels'])))
    return [mk(('view',), tgt, g, r, l) for tgt in ('A', 'A2', 'B', 'AB') for (g, r, l) in reqs]

def g_judge(E, config, stats=None, only_rule=None):
    """one registration configuration: the three getters directly, then has_perm under every rule of
    g_rules(config). -> list of (signature, case, message)"""
    pc = E.pc
    saved = [list(l) for l in (pc.usergroup_functions, pc.userrole_functions, pc.objlabel_functions)]
    out = []
    try:
        g_install(E, config)
        blame = defaultdict(list)
        for d in g_direct(E, config, stats):
            kind, ui, t, name, how = d
            tail, small = g_blame(E, config, d)
            for u in (range(len(GUSERS)) if ui is None else (ui,)):
                for tt in (GTARGETS if t is None else (t,)): blame[(u, tt)].append(tail)
            if only_rule is None:
                out.append(('G-getter | ' + tail, dict(getters=[list(r) for r in small], direct=[kind, ui, t, name, how],
                                                       original=[list(r) for r in config]),
                            'G: get_%s for user %s%s: name %r %s' % (kind, GUSERS[ui] if ui is not None else '-',
                                                                     '' if t is None else ' on %s[%d]' % (t[1], t[2]), name, how)))
        for rule in (g_rules(config) if only_rule is None else [only_rule]):
            declare(E, [rule])
            with E.orm.db_session:
                real = g_objects(E)
                for ui, ucls in enumerate(GUSERS):
                    user = E.gusers[ui]
                    for t in GTARGETS:
                        got = _call(pc.has_perm, user, 'view', real[t])
                        exp = g_ref(rule, config, ucls, t)
                        if stats is not None:
                            stats['decisions'] += 1
                            stats['getter_matrix_decisions'] += 1
                            if isinstance(got, str): stats['refused:' + got] += 1
                            else: stats['granted' if got else 'denied'] += 1
                        if isinstance(got, str) or got == exp: continue
                        law = 'D-granted-but-not-declared' if got else 'D-declared-but-denied'
                        why = sorted(set(blame.get((ui, t), ())))
                        if not why:
                            needs = '+'.join(k for k, v in zip(('groups', 'roles', 'labels'), rule[2:5]) if v) or 'nothing'
                            why = ['getters answer as registered, rule needs ' + needs]
                        sig = '%s | %s | %s' % (law, target_kind(t), ' ; '.join(why))
                        out.append((sig, dict(getters=[list(r) for r in config], rule=list(rule), user=ucls, target=list(t)),
                                    '%s: view %s for user %s under %s with getters %s: has_perm -> %r, declared %r'
                                    % (law, '.'.join(map(str, t[1:])), ucls or 'anonymous', rule_text(rule),
                                       [reg_text(r, ucls, t[1]) for r in config], got, exp)))
    finally:
        for lst, old in zip((pc.usergroup_functions, pc.userrole_functions, pc.objlabel_functions), saved): lst[:] = old
        for ent in E.ent.values(): ent._access_rules_.clear()
    return out

def g_configs(quick):
    def G(u, n='g1', f='list'): return ('groups', u, None, n, f)
    def R(u, o, n='r1', f='list'): return ('roles', u, o, n, f)
    def L(o, n='l1', f='list'): return ('labels', None, o, n, f)
    dG, dR, dL = (G(None),), (R(None, None),), (L(None),)
    UO_ = [(u, o) for u in UCLS for o in OCLS]
    Gs = [(G(u, f=f),) for u in UCLS for f in FORMS] + [(G(u1), G(u2, 'g2')) for u1 in UCLS for u2 in UCLS]
    Ls = [(L(o, f=f),) for o in OCLS for f in FORMS] + [(L(o1), L(o2, 'l2')) for o1 in OCLS for o2 in OCLS]
    Rs = [(R(u, o, f=f),) for u, o in UO_ for f in FORMS]
    Rs += [(R(u1, o1), R(u2, o2, 'r2')) for i, (u1, o1) in enumerate(UO_) for j, (u2, o2) in enumerate(UO_) if i <= j or not quick]
    out = [g + dR + dL for g in Gs] + [dG + r + dL for r in Rs] + [dG + dR + l for l in Ls]
    out += [(), dG, dR, dL]
    if not quick:
        out += [(G(u), R(u2, o), L(o2)) for u in UCLS for (u2, o) in UO_ for o2 in OCLS]
    return sorted(set(out), key=repr)

# ---------------------------------------------------------------------------------------------
# enumeration

AEXCL_FULL = ((), ('A.name',), ('A.b',), ('B.a_set',), ('A.b', 'B.a_set'), ('B.title',), ('A2.extra',))
def domain(targets, groups, roles, labels, eexcls, aexcls, perms=(('view',),)):
    out = []
    for p in perms:
        for t in targets:
            for g in groups:
                for r in roles:
                    for l in labels:
                        for e in eexcls:
                            for a in aexcls:
                                out.append(mk(p, t, g, r, l, e, a))
    return sorted(out)

def domains(quick):
    full = domain(('A', 'A2', 'B', 'AB'), GROUPS, ((), ('r1',)), ((), ('l1',)), ('', 'A', 'A2', 'B'), AEXCL_FULL)
    large = domain(('A', 'A2', 'B', 'AB'), GROUPS, ((), ('r1',)), ((), ('l1',)), ('', 'A', 'A2', 'B'), AEXCL_FULL[:5])
    mid = [r for r in domain(('A', 'A2', 'B'), ((), ('g1',)), ((), ('r1',)), ((), ('l1',)), ('', 'A', 'B'),
                             ((), ('A.name',), ('A.b',), ('B.a_set',))) if not (r[3] and r[4])]
    small = domain(('A', 'B'), ((), ('g1',)), ((),), ((), ('l1',)), ('', 'A', 'B'), ((), ('A.b',), ('B.a_set',)))
    tiny = domain(('A', 'B'), ((), ('g1',)), ((),), ((),), ('', 'A'), ((), ('A.b',), ('B.a_set',)))
    return dict(full=full, large=large, mid=mid, small=small, tiny=tiny)

MULTI = (('view', 'edit'), ('edit', 'delete'), ('view', 'edit', 'create', 'delete'))

def work(item):
    import time
    t0 = time.time()
    E = env()
    sub = core.Sub()
    stats = defaultdict(int)
    nontrivial = 0
    fam = item[0]
    D = domains(item[1])
    sets = []
    if fam == 'single':
        _, quick, perms, dom, lo, hi = item
        for r in D[dom][lo:hi]:
            sets.append(((tuple(perms),) + r[1:],))
        with_json = True
    elif fam == 'pair':
        _, quick, dom, lo, hi, with_json = item
        dd = D[dom]
        for i in range(lo, hi):
            for j in range(i, len(dd)): sets.append((dd[i], dd[j]))
    elif fam == 'mixed':          # a view rule and an edit rule: can_view is the union
        _, quick, dom, lo, hi = item
        dd = D[dom]
        for i in range(lo, hi):
            for j in range(len(dd)): sets.append((dd[i], (('edit',),) + dd[j][1:]))
        with_json = True
    elif fam == 'triple':
        _, quick, dom, lo, hi = item
        dd = D[dom]
        for i in range(lo, hi):
            for j in range(i, len(dd)):
                for k in range(j, len(dd)): sets.append((dd[i], dd[j], dd[k]))
        with_json = False
    elif fam == 'getters':
        _, quick, lo, hi = item
        for config in g_configs(quick)[lo:hi]:
            g0, d0 = stats['granted'], stats['denied']
            for sig, case, msg in g_judge(E, config, stats):
                sub.count('raw_disagreements')
                sub.violation(sig, case, msg)
            sub.count('getter_configurations')
            if stats['granted'] > g0 and stats['denied'] > d0: sub.count('nontrivial_getter_configurations')
    else: raise core.HarnessError('item %r' % (item,))
    for rs in sets:
        rs = tuple(sorted(rs))
        g0, d0 = stats['granted'], stats['denied']
        judge_set(sub, E, rs, with_json, stats)
        if stats['granted'] > g0 and stats['denied'] > d0: nontrivial += 1
        if len(sub.samples) < 1 and len(set(rs)) > 1 and stats['granted'] > g0 and stats['denied'] > d0:
            sub.sample(dict(rules=[rule_text(r) for r in rs], orders_evaluated=len(set(itertools.permutations(rs))),
                            example='user(g1) view A.b -> %r' % ((2, 'view', ('attr', 'A.b')) in answers_cached(E, rs))))
    for k, v in stats.items(): sub.count(k, v)
    for k, v in JSTAT.items(): sub.count(k, v)
    JSTAT.clear()
    sub.count('nontrivial_rule_sets', nontrivial)
    sub.count('cpu_ms:' + fam, int((time.time() - t0) * 1000))
    sub.count('ordered_container_iterations', OrderedRules.iterations)
    OrderedRules.iterations = 0
    return sub.dump()

def refusals(ctx):
    """API misuse that Pony documents as errors (counted; a missing refusal is a violation)"""
    E = env(); pc = E.pc
    A = E.ent['A']
    def t_perm_outside(): pc.perm('view')
    def t_no_permission():
        with E.db.set_perms_for(A): pc.perm()
    def t_exclude_pk():
        with E.db.set_perms_for(A): r = pc.perm('view')
        r.exclude(A.id)
    def t_nested():
        with E.db.set_perms_for(A):
            with E.db.set_perms_for(A): pass
    def t_bad_target():
        with E.orm.db_session: pc.has_perm(None, 'view', 42)
    for name, f in (('perm() outside set_perms_for', t_perm_outside), ('perm() without permission', t_no_permission),
                    ('exclude(primary key)', t_exclude_pk), ('nested set_perms_for', t_nested),
                    ('has_perm on a non-entity', t_bad_target)):
        try: f(); got = None
        except Exception as e: got = type(e).__name__
        finally:
            pc.local.perms_context = None
            for ent in E.ent.values(): ent._access_rules_.clear()
        ctx.count('api_refusals_checked')
        if got is None:
            ctx.violation('refusal missing | ' + name, dict(refusal=name), '%s is accepted silently' % name)

def chunks(n, size):
    return [(lo, min(n, lo + size)) for lo in range(0, n, size)]

def run(ctx):
    quick = ctx.quick
    D = domains(quick)
    items = []
    for perms in [(p,) for p in PERMS] + list(MULTI):
        dom = ('mid' if len(perms) > 1 else 'large') if quick else 'full'
        for lo, hi in chunks(len(D[dom]), 64): items.append(('single', quick, perms, dom, lo, hi))
    pair_dom = 'mid' if quick else 'large'
    n = len(D[pair_dom])
    for lo, hi in chunks(n, 2 if quick else 4): items.append(('pair', quick, pair_dom, lo, hi, False))
    tdom = 'tiny' if quick else 'small'
    for lo, hi in chunks(len(D[tdom]), 2): items.append(('pair', quick, tdom, lo, hi, True))
    for lo, hi in chunks(len(D[tdom]), 4): items.append(('mixed', quick, tdom, lo, hi))
    for lo, hi in chunks(len(D[tdom]), 1): items.append(('triple', quick, tdom, lo, hi))
    ncfg = len(g_configs(quick))
    for lo, hi in chunks(ncfg, 8): items.append(('getters', quick, lo, hi))
    items = ctx.shuffled(items)
    for dumped in ctx.pmap(work, items):
        core.absorb(ctx, dumped)
    refusals(ctx)
    c = ctx.counters
    ctx.cov['domains'] = dict((k, len(v)) for k, v in D.items())
    ctx.cov['bounds'] = ('single rules: full feature product (%d; quick: large product) x 4 permissions + 3 multi-permission forms (quick: on the mid product); pairs over the %s product (%d rules), '
                         'triples over the %s product (%d rules), all orders; to_json (and L3, L5) on singles and on same-permission and mixed view/edit pairs of the %s product'
                         % (len(D['full']), pair_dom, n, tdom, len(D[tdom]), tdom))
    ctx.guard('rule sets evaluated', c.get('rule_sets', 0), 5000)
    ctx.guard('decisions compared with the reference', c.get('decisions', 0), 1000000)
    ctx.guard('granted decisions', c.get('granted', 0), 10000)
    ctx.guard('denied decisions', c.get('denied', 0), 10000)
    ctx.guard('has_perm iterated the ordered rule containers', c.get('ordered_container_iterations', 0), 10000)
    ctx.guard('getter registration configurations', c.get('getter_configurations', 0), ncfg)
    ctx.guard('getter registration configurations with grants and denials', c.get('nontrivial_getter_configurations', 0), 100)
    ctx.guard('get_user_groups / get_user_roles / get_object_labels answers compared', c.get('getter_answers', 0), 10000)
    ctx.cov['getter_matrix'] = ('%d registration configurations: user_groups_getter x user_cls in None/U/US(U)/UO, user_roles_getter x user_cls x obj_cls in '
                                'None/A/A2(A)/B, obj_labels_getter x obj_cls, each in 3 return forms; two getters of one kind in %s; %s'
                                'x users anonymous/U/US/UO x every object and entity x rules (A, A2, B, A+B) needing nothing / one name / all names'
                                % (ncfg, 'every unordered pair (roles) / ordered pair (groups, labels)' if quick else 'every ordered pair',
                                   '' if quick else 'the full product of one getter per kind; '))
    ctx.guard('to_json answered', c.get('to_json_answered', 0), 1000)
    ctx.guard('to_json refused (PermissionError)', c.get('to_json_refused', 0), 1000)
    ctx.guard('objects emitted by to_json and checked', c.get('to_json_objects_emitted', 0), 1000)
    ctx.assume('reference decision = DESIGN C34 reading: entity: some rule of the entity matches the user groups and does not exclude the '
               'entity (exclusions include subclasses, rules declared for an entity apply to its subclasses); attribute: additionally '
               'not excluded, hidden attributes never; object: groups, roles and labels all match and the entity is not excluded')
    ctx.assume('"reverse side" is ambiguous: for a relationship attribute the answer is demanded only when the forward reading and the '
               'reverse reading agree (both grant -> True, neither grants -> False); %d decisions were left open' % c.get('ambiguous_reverse_side', 0))
    ctx.assume('entity._access_rules_[perm] (a set of AccessRule objects hashed by address) is replaced by an ordered container so that '
               'every iteration order of the rule set is exercised deterministically; rules are reset by clearing entity._access_rules_')
    ctx.assume('getter registrations are reset by emptying pony.orm.core.usergroup_functions / userrole_functions / objlabel_functions '
               '(restored afterwards); a getter applies iff isinstance(user, user_cls) and isinstance(obj, obj_cls), None = any; '
               'the anonymous user has the group anybody only and no roles')
    ctx.assume('can_view may or may not be implied by an edit rule: both accepted')
    return dict(evaluations=c.get('decisions', 0), distinct_nontrivial=c.get('nontrivial_rule_sets', 0) + c.get('nontrivial_getter_configurations', 0),
                rule='evaluations = has_perm decisions compared with the reference (users x permissions x targets x rule set x order); '
                     'distinct_nontrivial = distinct unordered rule sets (plus getter registration configurations) for which at least one decision was a grant and one a denial')

def replay(ctx, case):
    E = env()
    if 'refusal' in case:
        refusals(ctx); return not ctx.found
    if 'getters' in case:
        config = tuple(tuple(tuple(x) if isinstance(x, list) else x for x in r) for r in case['getters'])
        rule = case.get('rule')
        if rule is not None: rule = tuple(tuple(x) if isinstance(x, list) else x for x in rule)
        res = g_judge(E, config, only_rule=rule)
        if rule is None: res = [r for r in res if r[0].startswith('G-')]
        for sig, c, msg in res: print('  %s\n    %s' % (sig, msg))
        return not res
    rs = tuple(sorted(tuple(tuple(x) if isinstance(x, list) else x for x in r) for r in case['rules']))
    vs = find_violations(E, rs, case.get('with_json', False))
    print('rules:', ' ; '.join(rule_text(r) for r in rs))
    hit = False
    for law, kind, d in vs:
        mark = ''
        if law == case.get('law') and kind == case.get('kind'): hit = True; mark = '   <== recorded'
        print('  %s | %s | user=%r perm=%s target=%s: %s%s' % (law, kind, d['user'], d['perm'], d['target'], d['what'], mark))
    return not hit
