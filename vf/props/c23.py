"""C23 The loading strategy never changes the data a program observes.

SX differential. Read programs (attribute reads, navigation, collection iteration / len / count / in /
is_empty, key look-ups, entity scans - interleaved with modifications) are explored as histories of
depth <= 2 (thorough 3) on the populated fixture with canonical-state deduplication, and every history
is replayed under each loading strategy (reads include r_nplus1: scan an entity and read the
same collection of every object):
    default | every non-key scalar attribute lazy=True | to-one relationship attributes lazy=True |
    nplus1_threshold=0 (always batch) | nplus1_threshold=None (never batch) |
    provider.max_params_count forced to 2 (batch splitting) | always batch with max_params_count 1 (every batch
    overflows) | prefetch() of every relation first
The observation sequences must be identical; only the number of statements may differ (recorded as
vacuity guard that the strategies really differ).

Cross-session part. The SQL text of seed loads, partial collection loads, lazy loads ... is cached per
process (`Entity._batchload_sql_cache_`, `attr.cached_load_sql`, ...), so what a session observes may
depend on what an EARLIER session of the process loaded (seeded change C23-2). Breadth-first order
always executes the short histories first and thereby warms these caches in one fixed order; every
history is therefore also replayed, under every strategy including the default one, as the SECOND
session of a process whose statement caches were emptied and then warmed by one of two earlier
sessions: `nav` (navigate every to-one reference one by one, then read a scalar of every object: seed
loads of batch size 1) and `scan` (scan every entity, then read the scalars: batched seed loads).
Emptying a cache is what a fresh process is; the observations must still equal the default run's.
"""
from vf import core
from vf.engines import sx

LEVEL = 'model_checking'

RELS = [dict(rel='o2m'), dict(rel='o2m', req=True), dict(rel='o2o'), dict(rel='o2o', req=True), dict(rel='m2m'),
        dict(rel='sym_o2o'), dict(rel='sym_m2m'), dict(rel='self_o2m'), dict(rel='o2m', inherit=True), dict(rel='m2m', inherit=True)]
STRATEGIES = ['default', 'lazy', 'lazyrel', 'np0', 'npNone', 'maxparams2', 'np0-maxparams1', 'prefetch']

def build(base, strategy):
    from vf.models import catalog
    kw = dict(base)
    if strategy == 'lazy': kw['lazy'] = True
    elif strategy == 'lazyrel': kw['lazy_rel'] = True
    elif strategy in ('np0', 'np0-maxparams1'): kw['np'] = 0
    elif strategy == 'npNone': kw['np'] = None
    env = sx.Env(catalog.make(**kw))
    if strategy == 'maxparams2': env.db.provider.max_params_count = 2
    if strategy == 'np0-maxparams1': env.db.provider.max_params_count = 1     # every batch overflows: one owner per statement (seeded change C23-5)
    return env

WARMUPS = ['nav', 'scan']
ENTITY_CACHES = ['_find_sql_cache_', '_load_sql_cache_', '_batchload_sql_cache_', '_insert_sql_cache_', '_update_sql_cache_', '_delete_sql_cache_']

def clear_sql_caches(env):
    """what a fresh process starts with: no cached statement text on entities and attributes"""
    for e in env.db.entities.values():
        for name in ENTITY_CACHES: getattr(e, name).clear()
        e._cached_max_id_sql_ = None
        for a in e._new_attrs_:
            if getattr(a, 'lazy_sql_cache', None) is not None: a.lazy_sql_cache = None
            if a.is_collection:
                a.cached_load_sql.clear()
                a.cached_add_m2m_sql = a.cached_remove_m2m_sql = a.cached_count_sql = a.cached_empty_sql = None

def warm_history(env, kind):
    reads = [r for r in env.reads() if r[0] == 'r_attr' and not r[1].endswith(':3')]
    def is_ref(r):
        a = env.E[r[1].split(':')[0]]._adict_.get(r[2])
        return a is not None and a.reverse is not None and not a.is_collection
    scalars = [r for r in reads if not is_ref(r)]
    if kind == 'nav': return [r for r in reversed(reads) if is_ref(r)] + scalars   # referencing objects first: the targets are then seeds
    return [('r_all', root) for root in env.root_entities] + scalars

def _op_prefetch_all(self):
    """select every entity with prefetch of all its relations (and lazy attributes)"""
    for root in self.env.root_entities:
        e = self.env.E[root]
        attrs = [a for a in e._attrs_ if a.reverse or a.lazy]
        for sub_ in e._subclasses_: attrs += [a for a in sub_._new_attrs_ if a.reverse or a.lazy]
        q = e.select()
        if attrs: q = q.prefetch(*attrs)
        list(q)
sx.Exec.op_prefetch_all = _op_prefetch_all

def _op_r_nplus1(self, ename, attr):
    """the N+1 program: scan an entity and read the same collection of every object (batch loading with overflow)"""
    out = []
    for o in sorted(self.env.E[ename].select(), key=lambda o: repr(o._pk_)):
        out.append([self.cv(o), sorted(self.cv(list(getattr(o, attr))))])
    return out
sx.Exec.op_r_nplus1 = _op_r_nplus1

def alphabet(env):
    reads = [r for r in env.reads() if r[0] in ('r_attr', 'r_citer', 'r_clen', 'r_ccount', 'r_cempty', 'r_cin', 'r_get', 'r_all', 'r_todict', 'r_cselect')
             and not (r[0] == 'r_get' and r[1].endswith(':3'))]
    for name, e in sorted(env.db.entities.items()):
        for a in e._new_attrs_:
            if a.is_collection: reads.append(('r_nplus1', name, a.name))
    mods = [o for o in env.ops() if (o[0] in ('add', 'remove', 'delete', 'clear')) or
            (o[0] == 'set' and isinstance(o[3], tuple)) or (o[0] == 'set' and o[3] is None and o[2] not in ('n', 'u', 'm', 'x', 'y', 'z'))
            or (o[0] == 'create' and o[2] == 3 and 'u1' not in o[3].values()) or o[0] in ('flush', 'commit')]
    # (a creation with the unique value 'u1', which exists in the database, is left out: whether the conflict is seen at once or
    # at flush depends on whether the other row's value is in memory - a legitimate difference between loading strategies)
    return reads + mods

def worker(args):
    idx, tier, seed = args
    sub = core.Sub()
    base = RELS[idx]
    envs = {}
    for s in STRATEGIES:
        envs[s] = build(base, 'default' if s == 'prefetch' else s)
    d = envs['default']
    name = d.model.name
    ops = alphabet(d)
    warms = dict(((s, w), warm_history(envs[s], w)) for s in STRATEGIES for w in WARMUPS)
    ex = sx.Explorer(d, fixtures=('populated',), ops=ops)
    presigs = {}
    stmt = dict((s, 0) for s in STRATEGIES)
    def run_under(s, hist):
        env = envs[s]
        h = ([('prefetch_all',)] if s == 'prefetch' else []) + list(hist)
        x = env.run(h, 'populated')
        stmt[s] += len(x.sql)
        obs = x.obs[1:] if s == 'prefetch' else x.obs
        return obs
    def visit(env_, fx, hist, x):
        ref = x.obs
        stmt['default'] += len(x.sql)
        sub.count('histories')
        for s in STRATEGIES[1:]:
            obs = run_under(s, hist)
            sub.count('strategy_runs')
            judge(s, hist, ref, obs, lambda h, s=s: run_under(s, h))
        for w in (WARMUPS if len(hist) <= 2 else ()):    # thorough: the third operation is explored without restarts
            for s in STRATEGIES:
                def run_warm(h, s=s, w=w):
                    clear_sql_caches(envs[s])
                    envs[s].run(warms[s, w], 'populated')
                    return run_under(s, h)
                obs = run_warm(hist)
                sub.count('warm_runs')
                judge(s + '+after-' + w, hist, ref, obs, run_warm)
    def judge(s, hist, ref, obs, rerun):
            if obs == ref: return
            i = next(k for k in range(min(len(obs), len(ref)) + 1) if k >= len(obs) or k >= len(ref) or obs[k] != ref[k])
            pre = (s, sx.kinds(hist[:i + 1]), hist[min(i, len(hist) - 1)][0])
            if pre in presigs:
                sub.violation(presigs[pre], {}, ''); return
            def differs(h):
                a = d.run(h, 'populated').obs
                return rerun(h) != a and not any(o[0] == 'skip' for o in a)
            small = sx.shrink(list(hist[:i + 1]), differs)
            a = d.run(small, 'populated').obs; b = rerun(small)
            last = small[-1]
            sig = '%s|%s|%s|%s(%s)|default=%s %s=%s' % (base['rel'] + ('-req' if base.get('req') else '') + ('-inh' if base.get('inherit') else ''),
                                                   s, sx.kinds(small[:-1]) or '-', last[0], last[2] if len(last) > 2 and isinstance(last[2], str) else '',
                                                   short(a[-1]), s, short(b[-1] if b else None))
            presigs[pre] = sig
            sub.violation(sig, dict(rel=base, strategy=s, history=small, default=a, other=b),
                          'history %r: default loading observes %r, strategy %s observes %r' % (small, a, s, b))
    ex.run(2 if tier == 'quick' else 3, visit, order=sx.seeded_order(seed))
    for e in envs.values(): e.close()
    for s_ in ex.samples: sub.sample(s_)
    for s, n in stmt.items(): sub.count('statements:' + s, n)
    return dict(sub=sub.dump(), states=ex.states, transitions=ex.transitions, executions=ex.executions)

def short(o):
    if o is None: return 'nothing'
    if o[0] != 'ok': return '%s:%s' % (o[0], o[1])
    v = o[1]
    if isinstance(v, list): return 'list%d' % len(v)
    if isinstance(v, dict): return 'dict'
    return type(v).__name__ if v is not None and not isinstance(v, (bool, int)) else repr(v)

def run(ctx):
    results = ctx.pmap(worker, [(i, ctx.tier, ctx.seed) for i in range(len(RELS))])
    agg = dict(states=0, transitions=0, executions=0)
    for r in results:
        core.absorb(ctx, r['sub'])
        for k in agg: agg[k] += r[k]
    c = ctx.counters
    ctx.guard('histories', c.get('histories', 0), 1000)
    base = c.get('statements:default', 0)
    ctx.guard('strategies whose statement count differs from default',
              len([s for s in STRATEGIES[1:] if c.get('statements:' + s, 0) != base]), 3)
    ctx.guard('warm (second-session) runs', c.get('warm_runs', 0), 1000)
    ctx.cov['bounds'] = ('read/modify histories of depth <= %d on the populated fixture of 10 relationship models x 8 loading strategies, '
                         'each also as second session after a cache-emptying restart + warm-up session (nav, scan) under all 8 strategies' % (2 if ctx.quick else 3))
    ctx.assume('SQLite only; prefetch strategy = a full prefetching scan of every entity at the start of the session')
    return dict(states=agg['states'], transitions=agg['transitions'],
                traces_validated_against_impl=agg['executions'] + c.get('strategy_runs', 0) + c.get('warm_runs', 0))

def replay(ctx, case):
    base = case['rel']; s, _, w = case['strategy'].partition('+after-')
    d = build(base, 'default'); e = build(base, 'default' if s == 'prefetch' else s)
    if w:
        clear_sql_caches(e); e.run(warm_history(e, w), 'populated')
    hist = [tuple(tuple(x) if isinstance(x, list) else x for x in o) for o in case['history']]
    a = d.run(hist, 'populated').obs
    h = ([('prefetch_all',)] if s == 'prefetch' else []) + hist
    b = e.run(h, 'populated').obs
    if s == 'prefetch': b = b[1:]
    print('default :', a); print(s, ':', b)
    d.close(); e.close()
    return a == b
