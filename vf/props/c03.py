"""C03 Decompiling a generator expression or lambda preserves its meaning.

Bounded-exhaustive enumeration (VX), nothing sampled:

 (a) boolean-structure family: every operator skeleton over and / or / not / == / < / comparison
     chain / is None / is not None / conditional expression, every leaf a fresh name, placed in
     every *context* (yield position, if position, several for-clauses with conditions between them,
     lambda body, closure cells).  quick: all skeletons of depth <= 2; thorough: all skeletons with
     at most N operators (any depth).
 (b) leaf-form family: arithmetic of every operator, attribute chains, calls (positional, keyword,
     star), subscripts, slices with omitted bounds, displays, f-strings, nested generators,
     lambdas in calls, `in` tests -- each alone and under one level of boolean structure.

Oracle (independent of Pony): the tree returned by the decompiler is rendered with ast.unparse and
compared with the source *semantically*: loop targets / iterables / number of clauses structurally,
the condition of every clause by truthiness and the yielded expression by (type, value) under every
assignment of the free names over {0,1,2} ({None,1} for the operand of `is None`); family (b) is
evaluated over symbolic recorder objects (free term algebra) so that equal results mean equal
meaning under every interpretation.  A tree that is returned without exception but cannot be
rendered / compiled is wrong.  Any exception from the decompiler is a rejection (allowed, counted).

Signatures are minimal failing shapes: a failing skeleton is shrunk (replace a subtree by a fresh
leaf / hoist a subtree / simplify the context) while it still fails; the fixpoint names the
finding.  The offending subtree is then replaced by a leaf in the original case and the remainder is
re-checked, so a second independent defect in the same case is reported as well.

Cache histories: decompile() caches by id(code); histories over code objects that are created,
decompiled and dropped check that a recycled id never serves a stale tree (and that closure cells
are never served from the cache).
"""
import ast, gc, itertools, sys, types, warnings
from vf import core
warnings.simplefilter('ignore', SyntaxWarning)     # `x is 1`, `1(...)` in enumerated sources: slow and irrelevant

LEVEL = 'exploration'

# ------------------------------------------------------------------------------------------------
# skeleton grammar (family a).  A skeleton is 'L' or a tuple (op, child, ...).
UN = ('not', 'isnone', 'notnone')
BIN = ('and', 'or', 'eq', 'lt')
TER = ('chain', 'ifexp')          # chain: a < b < c ; ifexp: (test, body, orelse)
LEAF = 'L'
CONST_LEAVES = {'K1': '1', 'K0': '0', 'KN': 'None'}      # constant leaves (family ak)
def is_leaf(s): return isinstance(s, str)

def skeletons_depth(d):
    """all skeletons of depth <= d, deterministic order (small first)."""
    level = [LEAF]
    for _ in range(d):
        prev = level
        new = [LEAF]
        for op in UN: new += [(op, a) for a in prev]
        for op in BIN: new += [(op, a, b) for a in prev for b in prev]
        for op in TER: new += [(op, a, b, c) for a in prev for b in prev for c in prev]
        level = new
    return level

_by_ops = {0: [LEAF]}
def skeletons_ops(n):
    """all skeletons with exactly n operator nodes."""
    if n in _by_ops: return _by_ops[n]
    out = []
    for op in UN: out += [(op, a) for a in skeletons_ops(n - 1)]
    for i in range(n):
        for op in BIN:
            out += [(op, a, b) for a in skeletons_ops(i) for b in skeletons_ops(n - 1 - i)]
    for i in range(n):
        for j in range(n - i):
            for op in TER:
                out += [(op, a, b, c) for a in skeletons_ops(i) for b in skeletons_ops(j)
                        for c in skeletons_ops(n - 1 - i - j)]
    _by_ops[n] = out
    return out

def nops(s): return 0 if is_leaf(s) else 1 + sum(nops(c) for c in s[1:])
def depth(s): return 0 if is_leaf(s) else 1 + max(depth(c) for c in s[1:])
def leaf_paths(s, path=()):
    if is_leaf(s): yield path
    else:
        for i, c in enumerate(s[1:]):
            for p in leaf_paths(c, path + (i,)): yield p

def render(s, names, kinds, parent=None):
    """source text; every leaf gets a fresh name (appended to names, its domain kind to kinds)."""
    if s in CONST_LEAVES: return CONST_LEAVES[s]
    if s == LEAF:
        n = 'v%d' % len(names)
        names.append(n)
        kinds.append('none' if parent in ('isnone', 'notnone') else 'int')
        return n
    op = s[0]
    c = [render(x, names, kinds, op) for x in s[1:]]
    c = [t if is_leaf(x) else '(%s)' % t for t, x in zip(c, s[1:])]
    if op == 'not': return 'not ' + c[0]
    if op == 'isnone': return c[0] + ' is None'
    if op == 'notnone': return c[0] + ' is not None'
    if op == 'and': return c[0] + ' and ' + c[1]
    if op == 'or': return c[0] + ' or ' + c[1]
    if op == 'eq': return c[0] + ' == ' + c[1]
    if op == 'lt': return c[0] + ' < ' + c[1]
    if op == 'cmp': return c[0] + ' <cmp> ' + c[1]
    if op == 'chain': return '%s < %s < %s' % tuple(c)
    if op == 'ifexp': return '%s if %s else %s' % (c[1], c[0], c[2])
    raise ValueError(op)

def shape(s):
    """signature text of a skeleton: leaves erased."""
    def merge(t):      # == and < are the same COMPARE_OP shape: one signature token
        if is_leaf(t): return t
        return (('cmp' if t[0] in ('eq', 'lt') else t[0]),) + tuple(merge(c) for c in t[1:])
    names, kinds = [], []
    src = render(merge(s), names, kinds)
    for n in sorted(names, key=len, reverse=True): src = src.replace(n, '_')
    return src

# ------------------------------------------------------------------------------------------------
# contexts: template, kind ('gen' | 'lambda' | 'closure'); {E} is the expression under test.
# Other conditions are single fresh names p, q (domain {0,1,2} as well).
CONTEXTS = {
    'yield':        ('gen', '({E} for x in T)'),
    'if':           ('gen', '(x for x in T if {E})'),
    'lambda':       ('lambda', 'lambda: {E}'),
    'yield,if p':   ('gen', '({E} for x in T if p)'),
    'if p if':      ('gen', '(x for x in T if p if {E})'),
    'if,if p':      ('gen', '(x for x in T if {E} if p)'),
    'if,for':       ('gen', '(y for x in T if {E} for y in U)'),
    'for,if':       ('gen', '(y for x in T for y in U if {E})'),
    'if p,for,if,for,if q': ('gen', '(z for x in T if p for y in U if {E} for z in V if q)'),
    'yield,if p,for,if q': ('gen', '({E} for x in T if p for y in U if q)'),
    'closure yield': ('closure', '({E} for x in T)'),
    'closure if':    ('closure', '(x for x in T if {E})'),
    'lambda arg':    ('lambda', 'lambda x: {E}'),
}
# which simpler context a context shrinks to
SIMPLER = {
    'yield,if p': ('yield',), 'yield,if p,for,if q': ('yield', 'yield,if p'), 'closure yield': ('yield',),
    'if p if': ('if',), 'if,if p': ('if',), 'if,for': ('if',), 'for,if': ('if',),
    'if p,for,if,for,if q': ('if', 'for,if', 'if,for', 'if p if'), 'closure if': ('if',), 'lambda arg': ('lambda',),
}
MAIN_CONTEXTS = ('yield', 'if', 'lambda')
LOOPVARS = dict(x=7, y=8, z=9)
DOM = {'int': (0, 1, 2), 'none': (None, 1)}
MAX_TABLE = 20000

class Unrenderable(Exception): pass

def get_code(kind, src, names):
    """the code object handed to the decompiler"""
    if kind == 'gen':
        return compile(src, '<c03>', 'eval').co_consts[0]
    if kind == 'lambda':
        return compile(src, '<c03>', 'eval').co_consts[0]
    if kind == 'closure':
        # every free name is a closure cell of an enclosing function
        args = ', '.join(sorted(set(names) | {'p', 'q'}))
        fsrc = 'def outer(%s):\n return %s\n' % (args, src)
        outer = compile(fsrc, '<c03>', 'exec').co_consts[0]
        for c in outer.co_consts:
            if isinstance(c, types.CodeType): return c
    raise ValueError(kind)

def fix_dot0(tree, first_iter):
    """replace the '.0' placeholder of the outermost iterable by the source's iterable"""
    if isinstance(tree, ast.GeneratorExp) and tree.generators:
        it = tree.generators[0].iter
        if isinstance(it, ast.Name) and it.id == '.0':
            tree.generators[0].iter = first_iter
    return tree

def dump(node):
    return ast.dump(node) if isinstance(node, ast.AST) else repr(node)

class _Norm(ast.NodeTransformer):
    """representation-only normalisation before rendering (meaning is unambiguous in both cases):
    * CPython 3.12 compiles f"{a}" to a lone FORMAT_VALUE; the decompiler returns a bare
      FormattedValue, which ast.unparse only renders inside a JoinedStr;
    * Call.args / Call.keywords == None stand for 'none given'."""
    def visit_JoinedStr(self, n):
        n.values = [self.generic_visit(v) if isinstance(v, ast.FormattedValue) else self.visit(v) for v in n.values]
        return n
    def visit_FormattedValue(self, n):
        self.generic_visit(n)
        return ast.JoinedStr([n])
    def visit_Constant(self, n):
        # ast.unparse (3.12) renders BinOp(Constant(-1), Pow, a) as `-1 ** a`: spell the sign as an operator instead
        if type(n.value) in (int, float) and repr(n.value).startswith('-'):
            return ast.UnaryOp(ast.USub(), ast.Constant(-n.value))
        return n
    def visit_Call(self, n):
        if n.args is None: n.args = []; NORMALISED['Call.args=None'] = NORMALISED.get('Call.args=None', 0) + 1
        if n.keywords is None: n.keywords = []; NORMALISED['Call.keywords=None'] = NORMALISED.get('Call.keywords=None', 0) + 1
        self.generic_visit(n)
        return n
NORMALISED = {}

def unparse(node):
    try:
        if not isinstance(node, ast.AST): raise Unrenderable('not an AST node: %r' % (node,))
        if any(isinstance(n, (ast.FormattedValue, ast.Call)) or (isinstance(n, ast.Constant) and type(n.value) in (int, float))
               for n in ast.walk(node)):
            node = _Norm().visit(node)          # in place: the tree is not used again structurally
        src = ast.unparse(node)
        compile(src, '<c03-unparsed>', 'eval')
        return src
    except Unrenderable: raise
    except RecursionError: raise
    except Exception as e:
        raise Unrenderable('%s: %s' % (type(e).__name__, e))

def parts_of(tree, kind):
    """(clauses, elt) where clauses = [(target, iter, [ifs])]; lambda: ([], body)"""
    if kind == 'lambda':
        return [], tree
    if not isinstance(tree, ast.GeneratorExp):
        raise Unrenderable('generator expected, got %s' % type(tree).__name__)
    cl = []
    for g in tree.generators:
        if not isinstance(g, ast.comprehension): raise Unrenderable('comprehension expected: %s' % dump(g)[:80])
        cl.append((g.target, g.iter, list(g.ifs)))
    return cl, tree.elt

def cond_src(ifs):
    if not ifs: return 'True'
    return ' and '.join('(%s)' % unparse(i) for i in ifs)

def decompile_case(kind, src, names):
    """-> ('rejected', excname) | ('tree', tree)   (fresh Decompiler: no cache involved)"""
    from pony.orm.decompiling import Decompiler
    code = get_code(kind, src, names)
    try:
        tree = Decompiler(code).ast
    except RecursionError: raise
    except Exception as e:
        return 'rejected', type(e).__name__
    return 'tree', tree

def assignments(names, kinds):
    doms = [DOM[k] for k in kinds]
    return itertools.product(*doms)

def table_size(kinds):
    n = 1
    for k in kinds: n *= len(DOM[k])
    return n

def evaluate(code, env):
    try:
        v = eval(code, env)
        return (type(v).__name__, v)
    except RecursionError: raise
    except Exception as e:
        return ('raise', type(e).__name__)

def compare_semantics(kind, src, tree, names, kinds):
    """-> None if equivalent, else (what, detail).  Raises Unrenderable."""
    ref = ast.parse(src, mode='eval').body
    if kind == 'lambda':
        if isinstance(tree, ast.Lambda): raise Unrenderable('lambda body expected')
        ref_cl, ref_elt = [], ref.body
        lam_args = [a.arg for a in ref.args.args]
    else:
        ref_cl, ref_elt = parts_of(ref, 'gen')
        lam_args = []
        tree = fix_dot0(tree, ref_cl[0][1])
    cl, elt = parts_of(tree, 'lambda' if kind == 'lambda' else 'gen')
    if kind != 'lambda' and dump(ref) == dump(tree):
        return None
    if kind == 'lambda' and dump(ref_elt) == dump(elt):
        return None
    # loop structure: structurally
    if len(cl) != len(ref_cl):
        return 'loop-structure', 'number of for-clauses %d != %d' % (len(cl), len(ref_cl))
    for k, ((t1, i1, _), (t2, i2, _)) in enumerate(zip(cl, ref_cl)):
        if dump(t1) != dump(t2) or dump(i1) != dump(i2):
            return 'loop-structure', 'clause %d: for %s in %s  !=  for %s in %s' % (
                k, unparse_soft(t1), unparse_soft(i1), unparse_soft(t2), unparse_soft(i2))
    # conditions by truthiness, elt by (type, value)
    pairs = []
    for k, ((_, _, ifs1), (_, _, ifs2)) in enumerate(zip(cl, ref_cl)):
        if [dump(i) for i in ifs1] != [dump(i) for i in ifs2]:
            pairs.append(('condition of clause %d' % k, 'bool(%s)' % cond_src(ifs1), 'bool(%s)' % cond_src(ifs2)))
    if dump(elt) != dump(ref_elt):
        pairs.append(('value', unparse(elt), unparse(ref_elt)))
    allnames = list(names) + ['p', 'q']
    allkinds = list(kinds) + ['int', 'int']
    for what, s1, s2 in pairs:
        c1 = compile(s1, '<dec>', 'eval'); c2 = compile(s2, '<src>', 'eval')
        used = set(c1.co_names) | set(c2.co_names)
        nk = [(n, k) for n, k in zip(allnames, allkinds) if n in used]
        ns = [n for n, _ in nk]; ks = [k for _, k in nk]
        if table_size(ks) > MAX_TABLE:
            ks = ['int2' if k == 'int' else k for k in ks]
            compare_semantics.reduced += 1
        env = dict(LOOPVARS)
        for vals in itertools.product(*[DOM2[k] for k in ks]):
            env.update(zip(ns, vals))
            r1 = evaluate(c1, env); r2 = evaluate(c2, env)
            if r1 != r2:
                return what, '%s: under %s decompiled `%s` gives %r, source `%s` gives %r' % (
                    what, dict(zip(ns, vals)), s1, r1[1], s2, r2[1])
        compare_semantics.tables += 1
    return None
compare_semantics.reduced = 0
compare_semantics.tables = 0
DOM2 = dict(DOM, int2=(0, 1))

def unparse_soft(n):
    try: return ast.unparse(n)
    except Exception: return dump(n)[:80]

# ---- one case of family (a) -------------------------------------------------------------------
_memo = {}
def check_a(cname, skel):
    """-> (status, detail).  status: 'same' | 'equivalent' | 'rejected:<Exc>' | 'WRONG:<kind>'"""
    key = (cname, skel)
    r = _memo.get(key)
    if r is not None: return r
    kind, template = CONTEXTS[cname]
    names, kinds = [], []
    e = render(skel, names, kinds)
    src = template.replace('{E}', e if is_leaf(skel) else '(%s)' % e)
    r = judge(kind, src, names, kinds)
    _memo[key] = r
    return r

def judge(kind, src, names, kinds):
    st, tree = decompile_case(kind, src, names)
    if st == 'rejected':
        return ('rejected:' + tree, src)
    try:
        before = compare_semantics.tables; red0 = compare_semantics.reduced
        diff = compare_semantics(kind, src, tree, names, kinds)
    except Unrenderable as e:
        return ('WRONG:malformed', '%s -> tree returned without error cannot be rendered (%s): %s'
                % (src, e, dump(tree)[:300]))
    if diff is None:
        return ('equivalent' if compare_semantics.tables > before else 'same', src) + (compare_semantics.reduced > red0,)
    return ('WRONG:' + diff[0].split(' ')[0], '%s -> %s' % (src, diff[1]))

def failing(cname, skel):
    return check_a(cname, skel)[0].startswith('WRONG')

def subtrees(s, path=()):
    """(path, subtree) for every proper non-leaf... every node, preorder"""
    yield path, s
    if not is_leaf(s):
        for i, c in enumerate(s[1:]):
            for x in subtrees(c, path + (i,)): yield x

def replace_at(s, path, new):
    if not path: return new
    i = path[0]
    c = list(s[1:])
    c[i] = replace_at(c[i], path[1:], new)
    return (s[0],) + tuple(c)

def get_at(s, path):
    for i in path: s = s[1:][i]
    return s

def origin_tree(s, path=()):
    """parallel tree of original paths, same layout as the skeleton (so replace_at / get_at apply)"""
    if is_leaf(s): return (path,)
    return (path,) + tuple(origin_tree(c, path + (i,)) for i, c in enumerate(s[1:]))

def shrink(cname, skel):
    """greedy deterministic shrink of a failing (context, skeleton) to a 1-minimal failing one.
    Reductions: simpler context; replace any subtree by one of its own non-leaf children (hoisting,
    at the root or inside); replace any proper subtree (or constant leaf) by a fresh name leaf.
    -> (cname', skel', path)  where path locates, in the original skeleton, the smallest subtree that
    contains every operator kept in skel' (the 'offending subtree')."""
    org = origin_tree(skel)
    changed = True
    while changed:
        changed = False
        for simpler in SIMPLER.get(cname, ()):
            if failing(simpler, skel):
                cname = simpler; changed = True
                break
        if changed: continue
        for p, sub in subtrees(skel):
            if is_leaf(sub): continue
            for i, c in enumerate(sub[1:]):
                if is_leaf(c): continue
                cand = replace_at(skel, p, c)
                if failing(cname, cand):
                    org = replace_at(org, p, get_at(org, p + (i,)))
                    skel = cand; changed = True
                    break
            if changed: break
        if changed: continue
        for p, sub in subtrees(skel):
            if not p or sub == LEAF: continue      # (a constant leaf is simplified to a name leaf)
            cand = replace_at(skel, p, LEAF)
            if failing(cname, cand):
                org = replace_at(org, p, (get_at(org, p)[0],))
                skel = cand; changed = True
                break
    # lowest common ancestor (in the original) of all operator nodes kept
    paths = [o[0] for (pp, o), (_, sk) in zip(subtrees(org), subtrees(skel)) if not is_leaf(sk)]
    if not paths: return cname, skel, ()
    lca = paths[0]
    for q in paths[1:]:
        k = 0
        while k < len(lca) and k < len(q) and lca[k] == q[k]: k += 1
        lca = lca[:k]
    return cname, skel, lca

def attribute(sub, cname, skel, detail):
    """record every minimal failing shape contained in a failing case: shrink, report, replace the
    offending subtree by a fresh leaf, and look again at what is left"""
    orig = (cname, skel)
    seen = 0
    while failing(cname, skel) and seen < 6:
        c2, s2, path = shrink(cname, skel)
        sig = 'a|%s|%s' % (c2, shape(s2))
        d2 = check_a(c2, s2)
        sub.violation(sig, dict(family='a', context=c2, skeleton=s2, found_in=dict(context=orig[0], skeleton=orig[1])),
                      '%s  [minimal shape of: %s]' % (d2[1], detail) if (c2, s2) != orig else d2[1])
        seen += 1
        if not path: break
        skel = replace_at(skel, path, LEAF)     # offending subtree -> fresh leaf; does the rest pass?
    return seen

# ---- family (b): leaf forms -------------------------------------------------------------------
class Sym(object):
    """symbolic recorder: every operation builds a term; equal terms = equal meaning"""
    __slots__ = ('t',)
    def __init__(self, t): self.t = t
    def __repr__(self): return 'Sym%r' % (self.t,)
    def __hash__(self): return hash(self.t)
    def __getattr__(self, name):
        if name.startswith('__'): raise AttributeError(name)
        return Sym(('.', self.t, name))
    def __call__(self, *a, **k):
        return Sym(('call', self.t, tuple(term(x) for x in a), tuple(sorted((n, term(v)) for n, v in k.items()))))
    def __getitem__(self, key): return Sym(('[]', self.t, term(key)))
    def __iter__(self): return iter((Sym(('it0', self.t)), Sym(('it1', self.t))))
    def keys(self): return ['k0']
    def __format__(self, spec): return '<%r:%s>' % (self.t, spec)
    def __str__(self): return '<str %r>' % (self.t,)
    def __bool__(self): raise TypeError('Sym has no truth value')
    def __contains__(self, x): raise TypeError('Sym has no membership')
def _bin(name):
    def f(self, other): return Sym((name, term(self), term(other)))
    def r(self, other): return Sym((name, term(other), term(self)))
    return f, r
for _n, _m in (('+', 'add'), ('-', 'sub'), ('*', 'mul'), ('/', 'truediv'), ('//', 'floordiv'), ('%', 'mod'),
               ('**', 'pow'), ('<<', 'lshift'), ('>>', 'rshift'), ('&', 'and'), ('|', 'or'), ('^', 'xor'), ('@', 'matmul')):
    _f, _r = _bin(_n)
    setattr(Sym, '__%s__' % _m, _f); setattr(Sym, '__r%s__' % _m, _r)
for _n, _m in (('==', 'eq'), ('!=', 'ne'), ('<', 'lt'), ('<=', 'le'), ('>', 'gt'), ('>=', 'ge')):
    setattr(Sym, '__%s__' % _m, _bin(_n)[0])
for _n, _m in (('neg', 'neg'), ('pos', 'pos'), ('inv', 'invert')):
    setattr(Sym, '__%s__' % _m, (lambda n: lambda self: Sym((n, self.t)))(_n))

def term(x):
    if isinstance(x, Sym): return x.t
    if isinstance(x, slice): return ('slice', term(x.start), term(x.stop), term(x.step))
    if isinstance(x, tuple): return ('tuple',) + tuple(term(i) for i in x)
    if isinstance(x, list): return ('list',) + tuple(term(i) for i in x)
    if isinstance(x, dict): return ('dict',) + tuple((term(k), term(v)) for k, v in x.items())
    if isinstance(x, (set, frozenset)): return ('set',) + tuple(sorted(repr(term(i)) for i in x))
    if isinstance(x, types.GeneratorType): return ('gen',) + tuple(term(i) for i in x)
    if isinstance(x, types.FunctionType):
        try: return ('func', term(x(Sym('arg0'))))
        except TypeError: return ('func0', term(x()))
    if x is None or isinstance(x, (bool, int, float, str, bytes, type(Ellipsis), complex)):
        return (type(x).__name__, x)
    return ('other', repr(x))

BINOPS = ['+', '-', '*', '/', '//', '%', '**', '<<', '>>', '&', '|', '^', '@']
CMPOPS = ['==', '!=', '<', '<=', '>', '>=']

def leaf_forms():
    """source texts of family (b); free names a b c d f g o s are Sym recorders, i j are ints"""
    F = []
    for op in BINOPS:
        F += ['a %s b' % op, 'a %s 3' % op, '(a %s b) %s c' % (op, op), 'a %s (b %s c)' % (op, op)]
    for op1, op2 in itertools.product(BINOPS, BINOPS):
        if op1 < op2: F += ['(a %s b) %s c' % (op1, op2), 'a %s (b %s c)' % (op1, op2)]
    F += ['-a', '+a', '~a', '-(a + b)', '-a ** b', '(-a) ** b', 'a ** -b', '- - a', '~-a', 'not a.b' if False else '-a.b']
    for op in CMPOPS: F += ['a %s b' % op, 'a %s 1' % op, 'a.b %s c[1]' % op]
    F += ['i in (1, 2)', 'i not in (1, 2)', 'i in [1, 2]', 'i in {1, 2}', 'i in (j, 2)', 'i in [j, 2]', 'i is j', 'i is not j',
          'i in (1,)', 'i in ()', 'a is None', 'a is not None', 'a.b is None', 'a.b is not None']
    F += ['a.b', 'a.b.c', 'a.b.c.d', 'x.a', 'x.a.b', 'a.b(c)', 'a.b(c).d', 'a.b.c(d)', 'a(b).c', 'a[b].c', 'a.b[c]', 'a(b)(c)', 'a[b][c]', 'a[b](c)', 'a(b)[c]']
    F += ['f()', 'f(a)', 'f(a, b)', 'f(a, b, c)', 'f(k=a)', 'f(a, k=b)', 'f(a, b, k=c, m=d)', 'f(k=a, m=b)', 'f(*a)', 'f(**o)', 'f(a, *b)',
          'f(a, **o)', 'f(*a, **o)', 'f(a, *b, k=c)', 'f(a, *b, k=c, **o)', 'f(*a, *b)', 'f(**o, **s)', 'f(a, k=1, **o)', 'o.m()', 'o.m(a)', 'o.m(a, k=b)', 'o.m(*a)', 'o.m(**s)',
          'o.m(a, *b, **s)', 'f(g(a))', 'f(g(a), k=g(b))', 'f(a)(b)', 'f(a.b, c[1], k=d.e)', 'x.m(a)', 'f(x)', 'f(x, k=x.a)', 'f(1, 2.5, "s", None, True)', 'f(a if i else b)', 'f(i and a)', 'f(k=i or a)']
    F += ['s[a]', 's[1]', 's[-1]', 's[a, b]', 's[1, 2]', 's[a:b]', 's[a:]', 's[:b]', 's[:]', 's[a:b:c]', 's[::c]', 's[a::c]', 's[:b:c]', 's[::]',
          's[1:2]', 's[1:]', 's[:2]', 's[1:2:3]', 's[::2]', 's[a:b, c]', 's[a:b, c:d]', 's[1:2, 3:4]', 's[a, b:c]', 's[:, a]', 's[...]', 's[a, ...]', 's[None]', 's[None:None]',
          's[a:None]', 's[-1:]', 's[:-1]', 's[a+1:b-1]', 's[f(a):]', 's[a][b:c]', 's[a.b:c.d]', 's[(a, b)]', 's[a,]', 's[()]']
    F += ['(a, b)', '(a,)', '()', '[a, b]', '[a]', '[]', '{a: b}', '{a: b, c: d}', '{}', '{"k": a}', '{"k": a, "m": b}', '{1: a, 2: b}', '(1, 2)', '[1, 2]', '[1, 2, 3, 4]', '(a, 1)', '[a, 1]',
          '{a, b}', '{1, 2}', '{a}', '(a, (b, c))', '[a, [b, c]]', '[(a, b), (c, d)]', '{a: (b, c)}', '{a: [b], **o}' , '(*a, b)', '[*a, b]', '[*a]', '(*a,)', '{**o}', '{**o, "k": a}']
    F += ['f"{a}"', 'f"x{a}y"', 'f"{a}{b}"', 'f"{a!r}"', 'f"{a!s}"', 'f"{a!a}"', 'f"{a:>5}"', 'f"{a!r:>5}"', 'f"{a:{b}}"', 'f"{a:>{b}}"', 'f"{a:{b}.{c}}"', 'f"{a!r:{b}}"',
          'f"{{{a}}}"', 'f"{{}}{a}"', 'f"{a.b}"', 'f"{a[1]}"', 'f"{f(a)}"', 'f"{a + b}"', 'f"{a}" + "t"', 'f"x"', 'f"{a}" f"{b}"', 'f"{1}"', 'f"{a:}"', "f\"{a}'\"", 'f"{a}\\n"', 'f"%{a}%"',
          '(-1) ** a', '(-1.5) ** i', '(-1).real', '(-1)[a]' , 'a ** -1', '-1 ** a', '(-1) ** i', '-(-1)', '(-1)(a)', '-1 * a', '(-1) % i',
          'f"{i:>3}"', 'f"{i!r:>3}"', 'f"{i:{j}}"', 'f"{i + j:03d}"', 'f"{i:>3}{j:<3}|"', 'f"{f"{a}"}"' if sys.version_info >= (3, 12) else 'f"{a}"']
    F += ['f(u for u in a)', 'f((u for u in a))', 'f(u.b for u in a)', 'f(u for u in a if u.k)', 'f(u for u in a if u.k and i)', 'f((u, w) for u in a for w in u.c)', 'f(u for u in a for w in b if w.k)',
          'f((u for u in a), b)', 'f(g(w for w in u.c) for u in a)', 'f(u for u in a if f(w for w in b))', 'f(u for u in x.a)', 'f(u for u in a if u.k == x.k)', 'f(x for x in a)', 'f(u for u, w in a)',
          'f(u for (u, w) in a)', 'f(u for u, (w, t) in a)', 'f(lambda: a)', 'f(lambda u: u.b)', 'f(lambda u: u + a)', 'f(lambda u: u.b if i else a)', 'f(lambda u: i and u)', 'f(lambda u, w: u)', 'f(lambda u=a: u)', 'f(lambda *u: u)',
          'f(lambda **u: u)', 'f(lambda u: lambda w: u + w)', 'f(k=lambda u: u.b)', 'f(a, lambda u: u)']
    F += ['1', '1.5', '"s"', 'b"s"', 'None', 'True', 'False', '...', '-1', '1 + 2', '(1, 2, 3)', '"a" "b"', '1j', '10**20', '-1.5e300', 'a', 'x', '"it\'s"', "'q\"q'", '"\\n\\t\\\\"']
    seen, out = set(), []
    for f in F:
        if f not in seen: seen.add(f); out.append(f)
    return out

B_WRAPS = {
    'alone': '{E}',
    'and': 'i and {E}',
    'or': '{E} or j',
    'not': 'not i or {E}',
    'ifexp': '{E} if i else a',
    'cmp': '({E}) == a',
}
B_CONTEXTS = ('yield', 'if', 'lambda arg', 'closure yield')

def b_envs():
    for i, j in ((0, 1), (1, 0), (2, 2)):
        env = dict(i=i, j=j, T=[Sym('row0'), Sym('row1')], x=Sym('x'))
        for n in 'abcdfgos': env[n] = Sym(n)
        yield env

def run_b(env, src):
    try:
        v = eval(src, dict(env))
        return term(v)
    except RecursionError: raise
    except Exception as e:
        return ('raise', type(e).__name__, str(e)[:80])

def check_b(cname, wrap, form):
    kind, template = CONTEXTS[cname]
    e = B_WRAPS[wrap].replace('{E}', form)
    src = template.replace('{E}', '(%s)' % e)
    names = ['a', 'b', 'c', 'd', 'f', 'g', 'o', 's', 'i', 'j']
    try:
        st, tree = decompile_case(kind, src, names)
    except SyntaxError as e:
        return ('skipped:syntax', src)
    if st == 'rejected': return ('rejected:' + tree, src)
    ref = ast.parse(src, mode='eval').body
    try:
        if kind == 'lambda':
            if not isinstance(tree, ast.AST) or isinstance(tree, ast.Lambda): raise Unrenderable('lambda body expected')
            if dump(tree) == dump(ref.body): return ('same', src)
            dsrc = 'lambda x: ' + unparse(tree)
            wrap_call = '(%s)(x)'
        else:
            tree = fix_dot0(tree, ref.generators[0].iter)
            if dump(tree) == dump(ref): return ('same', src)
            parts_of(tree, 'gen')
            dsrc = unparse(tree)
            wrap_call = '%s'
    except Unrenderable as e:
        return ('WRONG:malformed', '%s -> tree returned without error cannot be rendered (%s): %s' % (src, e, dump(tree)[:300]))
    if kind != 'lambda':
        cl, _ = parts_of(tree, 'gen'); rcl, _ = parts_of(ref, 'gen')
        if len(cl) != len(rcl) or any(dump(a[0]) != dump(b[0]) or dump(a[1]) != dump(b[1]) for a, b in zip(cl, rcl)):
            return ('WRONG:loop-structure', '%s -> %s' % (src, dsrc))
    for env in b_envs():
        r1 = run_b(env, wrap_call % dsrc); r2 = run_b(env, wrap_call % src)
        if r1 != r2:
            return ('WRONG:value', '%s -> decompiled as %s ; with i=%r j=%r: %s vs source %s'
                    % (src, dsrc, env['i'], env['j'], str(r1)[:160], str(r2)[:160]))
    return ('equivalent', src)

def form_class(form):
    """signature component for family (b): the form's AST skeleton with names/constants erased"""
    code = compile(form, '<form>', 'eval')
    if not code.co_names and not any(isinstance(k, types.CodeType) for k in code.co_consts):
        return 'K'                              # compile-time constant
    t = ast.parse(form, mode='eval').body
    class Erase(ast.NodeTransformer):
        def visit_Name(self, n): return ast.Name('_', ast.Load())
        def visit_Constant(self, n):
            return n if isinstance(n.value, str) and isinstance(getattr(self, 'in_f', None), int) else ast.Name('K', ast.Load())
        def visit_Attribute(self, n): return ast.Attribute(self.visit(n.value), '_', ast.Load())
        def visit_keyword(self, n): return ast.keyword(n.arg and 'k', self.visit(n.value))
        def visit_arg(self, n): return ast.arg('_')
    try:
        return ast.unparse(Erase().visit(t))
    except Exception:
        return form

def b_minimal(cname, wrap, form):
    """shrink a failing (b) case: simplest wrap, simplest context"""
    for w in ('alone',) + tuple(k for k in B_WRAPS if k != 'alone'):
        for c in ('yield', 'if', 'lambda arg', 'closure yield'):
            if (w, c) == (wrap, cname) or check_b(c, w, form)[0].startswith('WRONG'):
                return c, w
    return cname, wrap

# ---- workers ------------------------------------------------------------------------------------
def split_descriptors(n):
    """top-level decompositions of 'all skeletons with exactly n operators': (root op, child operator counts)"""
    out = []
    for op in UN: out.append((op, (n - 1,)))
    for i in range(n):
        for op in BIN: out.append((op, (i, n - 1 - i)))
    for i in range(n):
        for j in range(n - i):
            for op in TER: out.append((op, (i, j, n - 1 - i - j)))
    return out

def iter_split(op, counts):
    for ch in itertools.product(*[skeletons_ops(k) for k in counts]):
        yield (op,) + ch

def split_size(counts):
    n = 1
    for k in counts: n *= len(skeletons_ops(k))
    return n

def work_a(chunk):
    """chunk: list of (context, skeleton)  or  ('split', context, op, counts, part, nparts, rotate)"""
    sub = core.Sub()
    if chunk and chunk[0] == 'split':
        _, cname, op, counts, part, nparts, rot = chunk
        items = ((cname, sk) for i, sk in enumerate(iter_split(op, counts)) if (i + rot) % nparts == part)
    else:
        items = chunk
    for cname, skel in items:
        res = check_a(cname, skel)
        st, detail = res[0], res[1]
        if len(res) > 2 and res[2]: sub.count('a:equivalent_by_table_with_reduced_domain')
        sub.count('a:cases')
        sub.count('a:' + st.split(':')[0].lower())
        sub.count('a:context %s: %s' % (cname, st.split(':')[0].lower()))
        if st.startswith('rejected'): sub.count('a:' + st)
        if st.startswith('WRONG'):
            sub.count('a:' + st)
            attribute(sub, cname, skel, detail)
        elif st == 'equivalent' and len(sub.samples) < 1 and nops(skel) >= 2:
            sub.sample(dict(family='a', context=cname, source=detail, verdict='decompiled tree differs structurally, equivalent by truth table'))
        if len(_memo) > 400000: _memo.clear()
    return sub.dump()

def work_b(chunk):
    sub = core.Sub()
    for cname, wrap, form in chunk:
        st, detail = check_b(cname, wrap, form)
        sub.count('b:cases')
        sub.count('b:' + st.split(':')[0].lower())
        if st.startswith('rejected'): sub.count('b:' + st)
        if st.startswith('WRONG'):
            c2, w2 = b_minimal(cname, wrap, form)
            d2 = check_b(c2, w2, form)
            sig = 'b|%s|%s|%s' % (c2, B_WRAPS[w2].replace('{E}', 'E'), form_class(form))
            sub.violation(sig, dict(family='b', context=c2, wrap=w2, form=form), d2[1])
    return sub.dump()

def chunks(seq, n):
    seq = list(seq)
    size = max(1, (len(seq) + n - 1) // n)
    return [seq[i:i + size] for i in range(0, len(seq), size)]

# ---- cache histories ----------------------------------------------------------------------------
def cache_histories(ctx):
    """decompile f, drop f, create g, decompile g ... : a recycled id(code) must never serve a
    stale tree.  Also: the same code object with different closures must get its own cells."""
    from pony.orm import decompiling
    from pony.orm.decompiling import decompile, Decompiler
    n = 100 if ctx.quick else 400
    seen_ids = {}
    recycled = 0
    shapes = ['lambda: v + %d', 'lambda: v * %d', 'lambda: v - %d', '(u + %d for u in T)', '(u for u in T if u > %d)']
    for h, tmpl in enumerate(shapes):
        for k in range(n):
            src = tmpl % (k + 1000)                    # same size code objects: maximal chance of id reuse
            code = compile(src, '<c03h>', 'eval').co_consts[0]
            cid = id(code)
            if cid in seen_ids and seen_ids[cid] != src: recycled += 1
            seen_ids[cid] = src
            tree = decompile(code)[0]
            fresh = Decompiler(code).ast
            ctx.count('cache:decompile_calls')
            if dump(tree) != dump(fresh):
                ctx.violation('cache|stale tree served for a recycled id(code)',
                              dict(family='cache', template=tmpl, k=k, n=n),
                              'decompile() of a new code object `%s` returned the cached tree of a dead one: %s'
                              % (src, unparse_soft(tree)))
            again = decompile(code)[0]
            if again is not tree:
                ctx.count('cache:miss_on_second_call')
            del code, tree, fresh, again
            if k % 7 == 0: gc.collect()
    ctx.count('cache:recycled_ids_observed', recycled)
    # generator objects of the same code but different closures / frames
    def mk(v):
        return lambda: v + 1
    fs = [mk(i) for i in range(50)]
    for i, f in enumerate(fs):
        tree, names, cells = decompile(f)
        ctx.count('cache:decompile_calls')
        got = cells['v'].cell_contents if 'v' in cells else '<missing>'
        if got != i:
            ctx.violation('cache|closure cells served from cache', dict(family='cache', closure=i),
                          'decompile(f) for closure value %r returned cells with %r' % (i, got))
    return recycled

# ---- driver -------------------------------------------------------------------------------------
THOROUGH_OPS_ALL = 4        # every context
THOROUGH_OPS_MAIN = 5       # BIG_CONTEXTS only
BIG_CONTEXTS = ('if',)

def space_a(ctx):
    """-> (list of explicit cases, list of split descriptors, expected number of cases, text)"""
    cases, splits = [], []
    if ctx.quick:
        sk = skeletons_depth(2)
        for c in CONTEXTS:
            cases += [(c, s) for s in sk]
        bound = 'all %d skeletons of depth <= 2 x %d contexts' % (len(sk), len(CONTEXTS))
        total = len(cases)
    else:
        small = [s for n in range(3) for s in skeletons_ops(n)]
        for c in CONTEXTS:
            cases += [(c, s) for s in small]
        total = len(cases)
        nsmall = len(small)
        for n, ctxs in ((3, CONTEXTS), (THOROUGH_OPS_ALL, CONTEXTS), (THOROUGH_OPS_MAIN, BIG_CONTEXTS)):
            for c in ctxs:
                for op, counts in split_descriptors(n):
                    size = split_size(counts)
                    nparts = max(1, size // 4000)
                    for part in range(nparts):
                        splits.append(('split', c, op, counts, part, nparts, ctx.seed))
                    total += size
            if n <= THOROUGH_OPS_ALL: nsmall += len(skeletons_ops(n))
        bound = ('all %d skeletons with <= %d operators (superset of depth <= 2) x %d contexts + all %d skeletons '
                 'with exactly %d operators x contexts %s' % (nsmall, THOROUGH_OPS_ALL, len(CONTEXTS),
                                                           len(skeletons_ops(THOROUGH_OPS_MAIN)), THOROUGH_OPS_MAIN, list(BIG_CONTEXTS)))
    # family ak: constant leaves (CPython folds jumps on constants)
    d1 = skeletons_depth(1)
    ak = []
    for sk in d1:
        lp = list(leaf_paths(sk))
        for lab in itertools.product(('L', 'K1', 'K0', 'KN'), repeat=len(lp)):
            if all(l == 'L' for l in lab): continue
            t = sk
            for p, l in zip(lp, lab): t = replace_at(t, p, l)
            ak.append(t)
    n_d1 = len(ak)
    if not ctx.quick:
        for sk in skeletons_depth(2):
            if depth(sk) < 2: continue
            for p in leaf_paths(sk):
                for l in ('K1', 'K0', 'KN'): ak.append(replace_at(sk, p, l))
    extra = []
    if not ctx.quick:
        for c in MAIN_CONTEXTS: extra += [(c, s) for s in ak[n_d1:]]
    for c in CONTEXTS:
        extra += [(c, s) for s in ak[:n_d1]]
    cases += extra; total += len(extra)
    bound += ('; constant leaves {1, 0, None}: all %d labelings of depth <= 1 skeletons with at least one constant x %d contexts'
              % (n_d1, len(CONTEXTS)))
    if not ctx.quick:
        bound += ' + all %d depth-2 skeletons with exactly one constant leaf x %d main contexts' % (len(ak) - n_d1, len(MAIN_CONTEXTS))
    return cases, splits, total, bound

def space_b(ctx):
    forms = leaf_forms()
    def const(f):
        code = compile(f, '<form>', 'eval')
        return not code.co_names and not any(isinstance(k, types.CodeType) for k in code.co_consts)
    # compile-time constants under boolean structure are family ak's business (constant leaves)
    return [(c, w, f) for c in B_CONTEXTS for w in B_WRAPS for f in forms if w == 'alone' or not const(f)], forms

def run(ctx):
    import pony.orm.decompiling  # noqa  (import before forking)
    sys.setrecursionlimit(10000)
    cases_a, splits_a, total_a, bound = space_a(ctx)
    cases_b, forms = space_b(ctx)
    ctx.cov['bound_completed'] = bound
    ctx.cov['family_b_forms'] = len(forms)
    nchunks = ctx.nworkers * (4 if ctx.quick else 24)
    # shuffle, then deal into chunks: the covered set is the same for every seed
    for d in ctx.pmap(work_a, ctx.shuffled(chunks(ctx.shuffled(cases_a), nchunks) + splits_a)):
        core.absorb(ctx, d)
    for d in ctx.pmap(work_b, chunks(ctx.shuffled(cases_b), ctx.nworkers)):
        core.absorb(ctx, d)
    cache_histories(ctx)
    c = ctx.counters
    evaluations = c.get('a:cases', 0) + c.get('b:cases', 0) + c.get('cache:decompile_calls', 0)
    judged = (c.get('a:same', 0) + c.get('a:equivalent', 0) + c.get('a:wrong', 0)
              + c.get('b:same', 0) + c.get('b:equivalent', 0) + c.get('b:wrong', 0))
    ctx.guard('family (a) cases', c.get('a:cases', 0), total_a)
    ctx.guard('family (b) cases', c.get('b:cases', 0), len(cases_b))
    ctx.guard('cases the decompiler answered (not rejected) and the oracle judged', judged, 5000)
    ctx.guard('cases decompiled to a structurally different tree and proven equivalent by truth table', c.get('a:equivalent', 0), 100)
    ctx.guard('cache history decompile() calls', c.get('cache:decompile_calls', 0), 500)
    ctx.assume('CPython %d.%d bytecode only (the property is stated for the running version)' % sys.version_info[:2])
    ctx.assume('ast.unparse / compile / eval of CPython are the trusted evaluator of decompiled trees')
    ctx.assume('truth tables range over {0,1,2} per free name ({None,1} for the operand of `is None`); tables above %d rows use {0,1} for non-None leaves (counted as a:equivalent_by_table_with_reduced_domain)' % MAX_TABLE)
    ctx.assume('bytecode shape does not depend on the spelling of free names: every leaf is a distinct global (or closure cell in the closure contexts)')
    return dict(evaluations=evaluations, distinct_nontrivial=judged,
                rule='every (context, operator skeleton) of family (a) and every (context, wrapper, leaf form) of family (b) '
                     'is one distinct source text, compiled by CPython and decompiled by a fresh Decompiler; non-trivial = the '
                     'decompiler returned a tree (not a rejection) and the oracle compared it with the source; plus cache-history calls')

def replay(ctx, case):
    sys.setrecursionlimit(10000)
    fam = case.get('family')
    if fam == 'a':
        skel = totuple(case['skeleton'])
        res = check_a(case['context'], skel); st, detail = res[0], res[1]
        print(st, '|', detail)
        return not st.startswith('WRONG')
    if fam == 'b':
        st, detail = check_b(case['context'], case['wrap'], case['form'])
        print(st, '|', detail)
        return not st.startswith('WRONG')
    if fam == 'cache':
        cache_histories(ctx)
        for sig, e in ctx.found.items(): print(sig, e['message'])
        return not ctx.found
    raise core.HarnessError('unknown case family %r' % fam)

def totuple(x):
    return tuple(totuple(i) for i in x) if isinstance(x, list) else x
