"""Minimal stand-ins for the DB-API driver and web-framework modules that are not installed in
this sandbox. They contain no behaviour beyond what the provider modules touch at import time and
PEP 249 exception classes; every claim that depends on them is labelled model-based (DESIGN §2 DM).

install() must be called after `import pony` (vf.core has put /repo first on sys.path)."""
import sys, types

def _exc_classes(mod):
    class Warning(Exception): pass
    class Error(Exception):
        pgcode = None
    class InterfaceError(Error): pass
    class DatabaseError(Error): pass
    class DataError(DatabaseError): pass
    class OperationalError(DatabaseError): pass
    class IntegrityError(DatabaseError): pass
    class InternalError(DatabaseError): pass
    class ProgrammingError(DatabaseError): pass
    class NotSupportedError(DatabaseError): pass
    for c in (Warning, Error, InterfaceError, DatabaseError, DataError, OperationalError,
              IntegrityError, InternalError, ProgrammingError, NotSupportedError):
        c.__module__ = mod.__name__
        setattr(mod, c.__name__, c)

def _module(name, **attrs):
    m = types.ModuleType(name)
    m.__dict__.update(attrs)
    m.__vf_stub__ = True
    sys.modules[name] = m
    return m

def install_psycopg2():
    if 'psycopg2' in sys.modules: return sys.modules['psycopg2']
    m = _module('psycopg2', paramstyle='pyformat', apilevel='2.0', threadsafety=2)
    _exc_classes(m)
    def connect(*args, **kwargs):
        factory = getattr(m, '_vf_connect', None)
        if factory is None: raise m.OperationalError('vf stub: no server')
        return factory(*args, **kwargs)
    m.connect = connect
    ext = _module('psycopg2.extensions',
                  ISOLATION_LEVEL_AUTOCOMMIT=0, ISOLATION_LEVEL_READ_COMMITTED=1,
                  ISOLATION_LEVEL_REPEATABLE_READ=2, ISOLATION_LEVEL_SERIALIZABLE=3)
    extras = _module('psycopg2.extras',
                     register_uuid=lambda *a, **k: None,
                     register_default_json=lambda *a, **k: None,
                     register_default_jsonb=lambda *a, **k: None)
    m.extensions, m.extras = ext, extras
    return m

def install_pymysql():
    if 'pymysql' in sys.modules: return sys.modules['pymysql']
    # make sure MySQLdb import fails cleanly
    m = _module('pymysql', paramstyle='format', apilevel='2.0', threadsafety=1)
    _exc_classes(m)
    def connect(*args, **kwargs):
        factory = getattr(m, '_vf_connect', None)
        if factory is None: raise m.OperationalError(2003, 'vf stub: no server')
        return factory(*args, **kwargs)
    m.connect = connect
    def escape_str(value, mapping=None):
        # pymysql.converters.escape_str: quote and escape per MySQL default sql_mode
        tbl = {0: '\\0', ord('\n'): '\\n', ord('\r'): '\\r', 0x1a: '\\Z', ord('"'): '\\"',
               ord("'"): "\\'", ord('\\'): '\\\\'}
        return "'%s'" % value.translate(tbl)
    conv = _module('pymysql.converters', escape_str=escape_str, conversions={})
    class FIELD_TYPE: BLOB = 252; TIMESTAMP = 7; DATETIME = 12; TIME = 11
    class FLAG: BINARY = 128
    class CLIENT: FOUND_ROWS = 2
    consts = _module('pymysql.constants', FIELD_TYPE=FIELD_TYPE, FLAG=FLAG, CLIENT=CLIENT)
    m.converters, m.constants = conv, consts
    return m

def install_cx_oracle():
    if 'cx_Oracle' in sys.modules: return sys.modules['cx_Oracle']
    m = _module('cx_Oracle', paramstyle='named', apilevel='2.0', threadsafety=2,
                LOB=type('LOB', (), {}), STRING=str, NUMBER=float, FIXED_CHAR=str,
                TIMESTAMP=object, version='7.0.0')
    _exc_classes(m)
    class SessionPool(object):
        def __init__(self, *args, **kwargs):
            factory = getattr(m, '_vf_pool', None)
            if factory is None: raise m.OperationalError('vf stub: no server')
            self._impl = factory(*args, **kwargs)
        def acquire(self): return self._impl.acquire()
        def release(self, con): return self._impl.release(con)
        def drop(self, con): return self._impl.drop(con)
    m.SessionPool = SessionPool
    return m

def install_flask():
    if 'flask' in sys.modules: return sys.modules['flask']
    class _Request(object): pass
    m = _module('flask', request=_Request())
    class Flask(object):
        """Just enough to drive pony.flask.Pony: records the callbacks, and dispatches a request
        the way Flask does: before_request funcs, view, teardown_request funcs with the
        exception (or None)."""
        def __init__(self, name='app'):
            self.before, self.teardown = [], []
        def before_request(self, f): self.before.append(f); return f
        def teardown_request(self, f): self.teardown.append(f); return f
        def dispatch(self, view):
            m.request.__dict__.clear()
            exc = None
            try:
                for f in self.before: f()
                return view()
            except BaseException as e:
                exc = e
                raise
            finally:
                for f in reversed(self.teardown): f(exc)
    m.Flask = Flask
    return m

def install_bottle():
    if 'bottle' in sys.modules: return sys.modules['bottle']
    m = _module('bottle')
    class HTTPResponse(Exception):
        def __init__(self, body='', status=200): self.body, self.status = body, status
    class HTTPError(HTTPResponse):
        def __init__(self, status=500, body=''): HTTPResponse.__init__(self, body, status)
    m.HTTPResponse, m.HTTPError = HTTPResponse, HTTPError
    return m

def install_all():
    import pony  # noqa: the working tree must be imported before any stub
    install_psycopg2(); install_pymysql(); install_cx_oracle(); install_flask(); install_bottle()
