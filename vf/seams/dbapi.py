"""DB-API seam: db.bind('sqlite', file, factory=VfConnection, timeout=0).

Keyword arguments of Database.bind are forwarded verbatim to sqlite3.connect, so this needs no patch
in /repo. Every driver call of the controlled connections goes through ENV.on_call(kind, sql, args,
con) first: recording, fault plans, crash plans and scheduling points are all implemented there.
"""
import sqlite3, os, threading

class Environment(object):
    """Process-wide switchboard (one per process; engines install their own handler)."""
    def __init__(self):
        self.handler = None          # callable(kind, sql, args, con) or None
        self.log = None              # list to append (kind, sql, args) to, or None
        self.counter = 0
        self.fault_at = None         # dict: call index -> exception instance / 'crash'
        self.writes_only = False
    def reset(self, log=None, fault_at=None, handler=None):
        self.log, self.fault_at, self.handler, self.counter = log, fault_at, handler, 0
    def on_call(self, kind, sql=None, args=None, con=None):
        k = self.counter
        self.counter = k + 1
        if self.log is not None:
            self.log.append((kind, sql, args))
        h = self.handler
        if h is not None:
            h(kind, sql, args, con)
        fa = self.fault_at
        if fa is not None:
            f = fa.get(k)
            if f is not None:
                if f == 'crash': os._exit(77)
                raise f

ENV = Environment()

class VfCursor(sqlite3.Cursor):
    def execute(self, sql, *a):
        ENV.on_call('execute', sql, a[0] if a else None, self.connection)
        return sqlite3.Cursor.execute(self, sql, *a)
    def executemany(self, sql, *a):
        ENV.on_call('executemany', sql, a[0] if a else None, self.connection)
        return sqlite3.Cursor.executemany(self, sql, *a)

class VfConnection(sqlite3.Connection):
    def __init__(self, *a, **k):
        ENV.on_call('connect', None, None, None)
        sqlite3.Connection.__init__(self, *a, **k)
        self.vf_pid = os.getpid()
        self.vf_closed = 0
    def cursor(self, *a, **k):
        ENV.on_call('cursor', None, None, self)
        return sqlite3.Connection.cursor(self, VfCursor)
    def execute(self, sql, *a):
        ENV.on_call('execute', sql, a[0] if a else None, self)
        return sqlite3.Connection.execute(self, sql, *a)
    def commit(self):
        ENV.on_call('commit', None, None, self)
        return sqlite3.Connection.commit(self)
    def rollback(self):
        ENV.on_call('rollback', None, None, self)
        return sqlite3.Connection.rollback(self)
    def close(self):
        ENV.on_call('close', None, None, self)
        self.vf_closed += 1
        return sqlite3.Connection.close(self)

def is_write(sql):
    if not sql: return False
    s = sql.lstrip()[:7].upper()
    return s.startswith(('INSERT', 'UPDATE', 'DELETE', 'REPLACE'))

_ROOT = None
def scratch_dir():
    """/dev/shm/vf-<pid>/ , removed at exit by the process that created it; forked workers get a
    sub-directory of their parent's (pool workers leave through os._exit and never run atexit).
    Stale directories of dead processes are swept on first use."""
    global _ROOT
    import atexit, shutil
    pid = os.getpid()
    if _ROOT is None:
        for name in os.listdir('/dev/shm'):
            if name.startswith('vf-') and name[3:].isdigit() and not os.path.exists('/proc/' + name[3:]):
                shutil.rmtree('/dev/shm/' + name, ignore_errors=True)
        d = '/dev/shm/vf-%d' % pid
        os.makedirs(d, exist_ok=True)
        _ROOT = (pid, d)
        def cleanup(pid=pid, d=d):
            if os.getpid() == pid: shutil.rmtree(d, ignore_errors=True)
        atexit.register(cleanup)
        return d
    if _ROOT[0] == pid: return _ROOT[1]
    d = '%s/w%d' % (_ROOT[1], pid)
    os.makedirs(d, exist_ok=True)
    return d
