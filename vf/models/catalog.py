"""Parametrised catalogue of small entity models for the session explorer (SX).

A model is described by options, not hand-written cases; `define(db)` declares the entities on a
Database, `populate(E)` builds the fully linked committed fixture through Pony itself (once per
process; the rows are then captured with a raw connection and re-inserted by raw SQL on every reset).
Universe: objects 1 and 2 of every entity exist in the populated fixture, 3 is creatable.
"""

class Model(object):
    def __init__(self, name, define, populate, tags=(), opts=None):
        self.name, self.define, self.populate, self.tags = name, define, populate, set(tags)
        self.opts = opts or {}
    def __repr__(self): return 'Model(%s)' % self.name

def _rel_model(rel, req=False, cascade=None, uniq=True, inherit=False, ckey=False, pk='int', lazy=False, volatile=False,
               np='default', lazy_rel=False):
    name = rel + ('-req' if req else '') + ({None: '', True: '-casc', False: '-nocasc'}[cascade]) \
           + ('-inh' if inherit else '') + ('-ckey' if ckey else '') + ('-' + pk if pk != 'int' else '') \
           + ('-lazy' if lazy else '') + ('-lazyrel' if lazy_rel else '') + ('' if np == 'default' else '-np%s' % np)
    def define(db):
        from pony.orm import PrimaryKey, Required, Optional, Set, composite_key
        ck = {} if cascade is None else dict(cascade_delete=cascade)
        lz = dict(lazy=True) if lazy else {}
        lr = dict(lazy=True) if lazy_rel else {}
        if np != 'default': ck = dict(ck, nplus1_threshold=np)
        a = {}
        if pk == 'int': a['id'] = PrimaryKey(int)
        elif pk == 'auto': a['id'] = PrimaryKey(int, auto=True)
        a['n'] = Optional(int, **lz)
        if uniq: a['u'] = Optional(str, unique=True, **lz)
        if ckey:
            a['x'] = Required(int, default=0); a['y'] = Optional(int)
            a['_ck'] = None
        b = None
        if rel == 'o2m':
            a['bs'] = Set('B', **ck); b = dict(a=(Required if req else Optional)('A', **lr))
        elif rel == 'o2o':
            a['b'] = Optional('B', **{k: v for k, v in ck.items() if k != 'nplus1_threshold'}); b = dict(a=(Required if req else Optional)('A', **lr))
        elif rel == 'm2m':
            a['bs'] = Set('B', **({} if np == 'default' else dict(nplus1_threshold=np))); b = dict(aa=Set('A', **({} if np == 'default' else dict(nplus1_threshold=np))))
        elif rel == 'sym_o2o':
            a['peer'] = Optional('A', reverse='peer', **lr)
        elif rel == 'sym_m2m':
            a['friends'] = Set('A', reverse='friends', **({} if np == 'default' else dict(nplus1_threshold=np)))
        elif rel == 'self_o2m':
            a['parent'] = Optional('A', reverse='kids', **lr); a['kids'] = Set('A', reverse='parent', **ck)
        elif rel == 'none':
            pass
        else: raise AssertionError(rel)
        a.pop('_ck', None)
        ns = dict(a)
        if ckey:
            # composite_key must be called inside a class body: emulate through exec of a class statement
            src = ['class A(db.Entity):']
            for k in a: src.append('    %s = attrs[%r]' % (k, k))
            src.append('    composite_key(x, y)')
            g = dict(db=db, attrs=a, composite_key=composite_key)
            exec('\n'.join(src), g)
            A = g['A']
        else:
            A = type('A', (db.Entity,), ns)
        if inherit:
            type('A2', (A,), dict(z=Optional(int)))
        if b is not None:
            bb = {}
            if pk == 'auto': bb['id'] = PrimaryKey(int, auto=True)
            else: bb['id'] = PrimaryKey(int)
            bb['m'] = Optional(int, **lz)
            bb.update(b)
            type('B', (db.Entity,), bb)
    def populate(E):
        A = E['A']; B = E.get('B')
        A1cls = E.get('A2', A) if inherit else A
        kw = {} if pk == 'auto' else None
        def mk(cls, i, **k):
            if pk != 'auto': k['id'] = i
            return cls(**k)
        ka = dict(n=0)
        if uniq: ka['u'] = 'u1'
        if ckey: ka.update(x=0, y=0)
        a1 = mk(A, 1, **ka)
        kb = dict(n=1)
        if ckey: kb.update(x=0, y=1)
        a2 = mk(A1cls, 2, **kb)
        if rel == 'o2m':
            mk(B, 1, m=0, a=a1); mk(B, 2, m=1, a=a1)
        elif rel == 'o2o':
            mk(B, 1, m=0, a=a1)
            if req: mk(B, 2, m=1, a=a2)
            else: mk(B, 2, m=1)
        elif rel == 'm2m':
            b1 = mk(B, 1, m=0); b2 = mk(B, 2, m=1)
            a1.bs = [b1, b2]; a2.bs = [b1]
        elif rel == 'sym_o2o':
            from pony.orm import flush
            flush(); a1.peer = a2
        elif rel == 'sym_m2m':
            a1.friends.add(a2)
        elif rel == 'self_o2m':
            from pony.orm import flush
            flush(); a2.parent = a1
    return Model(name, define, populate, tags=[rel] + (['inherit'] if inherit else []) + (['ckey'] if ckey else []),
                 opts=dict(rel=rel, req=req, cascade=cascade, uniq=uniq, inherit=inherit, ckey=ckey, pk=pk, lazy=lazy, np=np, lazy_rel=lazy_rel))

make = _rel_model

def _casc3(opt):
    """three entities: A owns bs (deleted by cascade, or unlinked when opt) declared BEFORE cs, whose
    reverse is required without cascade - so deleting an A with both kinds of dependents fails midway"""
    name = 'casc3' + ('-opt' if opt else '')
    def define(db):
        from pony.orm import PrimaryKey, Required, Optional, Set
        type('A', (db.Entity,), dict(id=PrimaryKey(int), n=Optional(int), u=Optional(str, unique=True),
                                     bs=Set('B') if opt else Set('B', cascade_delete=True), cs=Set('C', cascade_delete=False)))
        type('B', (db.Entity,), dict(id=PrimaryKey(int), m=Optional(int), a=Optional('A') if opt else Required('A')))
        type('C', (db.Entity,), dict(id=PrimaryKey(int), a=Required('A')))
    def populate(E):
        a1 = E['A'](id=1, n=0, u='u1'); a2 = E['A'](id=2, n=1)
        E['B'](id=1, m=0, a=a1); E['B'](id=2, m=1, a=a1)
        E['C'](id=1, a=a1); E['C'](id=2, a=a2)
    return Model(name, define, populate, tags=['casc3'], opts=dict(rel='casc3', req=not opt, cascade=None, uniq=True, inherit=False, ckey=False, pk='int', lazy=False, np='default', lazy_rel=False))

def _o2o3():
    """three entities: A holds the column of a cascading one-to-one to B and is itself referenced by C,
    so an A can be met as an unloaded reference (C.a) before anything else touches it"""
    def define(db):
        from pony.orm import PrimaryKey, Required, Optional, Set
        type('A', (db.Entity,), dict(id=PrimaryKey(int), n=Optional(int), b=Optional('B', cascade_delete=True, column='b_id'), cs=Set('C')))
        type('B', (db.Entity,), dict(id=PrimaryKey(int), m=Optional(int), a=Optional('A')))
        type('C', (db.Entity,), dict(id=PrimaryKey(int), a=Optional('A')))
    def populate(E):
        b1 = E['B'](id=1, m=0); b2 = E['B'](id=2, m=1)
        a1 = E['A'](id=1, n=0, b=b1); a2 = E['A'](id=2, n=1)
        E['C'](id=1, a=a1); E['C'](id=2, a=a1)
    return Model('o2o3', define, populate, tags=['o2o3'], opts=dict(rel='o2o3', req=False, cascade=True, uniq=False, inherit=False, ckey=False, pk='int', lazy=False, np='default', lazy_rel=False))

def _mix3():
    """three entities: A has a many-to-many collection (declared first) and a one-to-many collection whose
    reverse is required without cascade - deleting an A with both is refused AFTER the many-to-many side was
    already unlinked; two relationship kinds meet in one object"""
    def define(db):
        from pony.orm import PrimaryKey, Required, Optional, Set
        type('A', (db.Entity,), dict(id=PrimaryKey(int), n=Optional(int), bs=Set('B'), cs=Set('C', cascade_delete=False)))
        type('B', (db.Entity,), dict(id=PrimaryKey(int), m=Optional(int), as_=Set('A')))
        type('C', (db.Entity,), dict(id=PrimaryKey(int), a=Required('A')))
    def populate(E):
        a1 = E['A'](id=1, n=0); a2 = E['A'](id=2, n=1)
        b1 = E['B'](id=1, m=0); b2 = E['B'](id=2, m=1)
        a1.bs.add(b1); a1.bs.add(b2); a2.bs.add(b1)
        E['C'](id=1, a=a1); E['C'](id=2, a=a2)
    return Model('mix3', define, populate, tags=['mix3'], opts=dict(rel='mix3', req=True, cascade=None, uniq=False, inherit=False, ckey=False, pk='int', lazy=False, np='default', lazy_rel=False))

def _ckey2():
    """one entity with TWO composite keys that share an attribute, all parts optional: one assignment can complete
    one key and collide on the other"""
    def define(db):
        from pony.orm import PrimaryKey, Optional, composite_key
        g = dict(db=db, PrimaryKey=PrimaryKey, Optional=Optional, composite_key=composite_key)
        exec('class A(db.Entity):\n    id = PrimaryKey(int)\n    x = Optional(int)\n    y = Optional(int)\n    z = Optional(int)\n'
             '    composite_key(x, y)\n    composite_key(x, z)\n', g)
    def populate(E):
        E['A'](id=1, y=0, z=0); E['A'](id=2, x=1, y=1, z=0)
    return Model('ckey2', define, populate, tags=['ckey2'], opts=dict(rel='none', req=False, cascade=None, uniq=False, inherit=False, ckey=True, pk='int', lazy=False, np='default', lazy_rel=False))

def catalogue(tier='quick'):
    """Model list. quick: one representative per relationship kind and option that changes code
    paths; thorough: the full option product."""
    M = []
    # core representatives
    M.append(_rel_model('o2m', req=True))
    M.append(_rel_model('o2m', req=False))
    M.append(_rel_model('o2o', req=False))
    M.append(_rel_model('o2o', req=True))
    M.append(_rel_model('m2m'))
    M.append(_rel_model('sym_o2o'))
    M.append(_rel_model('sym_m2m'))
    M.append(_rel_model('self_o2m'))
    M.append(_rel_model('none', ckey=True))
    M.append(_rel_model('o2m', req=False, inherit=True))
    M.append(_rel_model('o2m', req=True, cascade=False))
    M.append(_rel_model('o2m', req=False, cascade=True))
    M.append(_rel_model('o2m', req=False, pk='auto'))
    M.append(_casc3(False)); M.append(_casc3(True)); M.append(_o2o3()); M.append(_mix3()); M.append(_ckey2())
    if tier != 'quick':
        M.append(_rel_model('o2o', req=False, cascade=True))
        M.append(_rel_model('o2o', req=True, cascade=False))
        M.append(_rel_model('self_o2m', cascade=True))
        M.append(_rel_model('m2m', inherit=True))
        M.append(_rel_model('m2m', pk='auto'))
        M.append(_rel_model('o2o', req=False, inherit=True))
        M.append(_rel_model('sym_o2o', inherit=True))
        M.append(_rel_model('o2m', req=True, ckey=True))
        M.append(_rel_model('o2m', req=True, pk='auto'))
        M.append(_rel_model('o2o', req=True, pk='auto'))
    return M

def by_name(name):
    for m in catalogue('thorough'):
        if m.name == name: return m
    raise KeyError(name)
